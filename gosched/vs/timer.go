package vs

import (
	"fmt"
	"time"
)

// TimerOrder says which armed timers may fire.
type TimerOrder int

const (
	// TimerAny: any armed timer may fire at any time (durations are treated as arbitrary;
	// sound for "for all schedules" properties, since a goroutine can be delayed arbitrarily).
	TimerAny TimerOrder = iota
	// TimerByDeadline: only the armed timers with the smallest virtual deadline may fire.
	TimerByDeadline
)

// Epoch is the virtual time at the start of every execution.
var Epoch = time.Date(2021, 7, 16, 0, 0, 0, 0, time.UTC)

// Timer is a virtual timer owned by the scheduler. Firing is an environment-class transition.
type Timer struct {
	C        chan time.Time
	cm       *chanModel
	armed    bool
	deadline time.Duration
	period   time.Duration
	fn       func()
	obj      Obj
	id       H
	seq      int
}

// Now returns the virtual time.
func Now() time.Time {
	if s := active; s != nil {
		return Epoch.Add(s.now)
	}
	return time.Now()
}

// NewTimer creates and arms a virtual timer. fn != nil makes it an AfterFunc timer; period > 0 a ticker.
// Creation is not a scheduling point (nobody else can know the timer yet).
func NewTimer(d time.Duration, period time.Duration, fn func()) *Timer {
	s := active
	if s == nil {
		panic("vs.NewTimer outside a controlled execution")
	}
	g := s.cur
	t := &Timer{C: make(chan time.Time, 1), armed: true, deadline: s.now + d, period: period, fn: fn, seq: len(s.timers)}
	t.id = g.h.fold2(cTimer, uint64(g.nops))
	t.obj.h = t.id
	t.cm = modelR[time.Time](s, t.C)
	s.timers = append(s.timers, t)
	s.ntimers++
	s.setH(g, g.h.fold(cTimer))
	return t
}

func (t *Timer) fire(s *sched) {
	if t.deadline > s.now {
		s.now = t.deadline
	}
	if s.tracing {
		s.trace = append(s.trace, fmt.Sprintf("timer%d fires (t=%v)", t.seq, s.now))
	}
	s.tmrH = s.tmrH.foldH(t.id).fold(uint64(t.deadline))
	t.obj.h = t.obj.h.fold(cTimer)
	if t.period > 0 {
		t.deadline += t.period
	} else {
		t.armed = false
		s.ntimers--
	}
	if t.fn != nil {
		// AfterFunc: f runs in its own goroutine, child of a pseudo parent named after the timer
		fn := t.fn
		g := &G{class: ClassSys, wake: make(chan struct{}, 1), exited: make(chan struct{}), op: startOp, idx: len(s.gs)}
		g.id = fmt.Sprintf("t%d", t.seq)
		g.h = strHash(g.id).foldH(t.obj.h)
		s.keySum.add(g.h.contrib())
		s.gs = append(s.gs, g)
		s.npending++
		go s.gmain(g, fn)
		return
	}
	stamp := t.obj.h
	t.cm.buf = append(t.cm.buf, item{v: Epoch.Add(s.now), stamp: stamp})
}

// Stop is Timer.Stop: it reports whether the call stopped the timer. Scheduling point.
func (t *Timer) Stop() bool {
	s := active
	g := s.cur
	was := false
	opImpure(fmt.Sprintf("timer%d.Stop", t.seq), &t.obj, foldChain, nil, func() {
		was = t.armed
		if t.armed {
			t.armed = false
			s.ntimers--
		}
		s.setH(g, g.h.fold2(cTimer, b2u(was)))
	})
	return was
}

// Reset is Timer.Reset. Scheduling point.
func (t *Timer) Reset(d time.Duration) bool {
	s := active
	g := s.cur
	was := false
	opImpure(fmt.Sprintf("timer%d.Reset", t.seq), &t.obj, foldChain, nil, func() {
		was = t.armed
		if !t.armed {
			t.armed = true
			s.ntimers++
		}
		t.deadline = s.now + d
		s.setH(g, g.h.fold2(cTimer, b2u(was)))
	})
	return was
}

func b2u(b bool) uint64 {
	if b {
		return 1
	}
	return 0
}
