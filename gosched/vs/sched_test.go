package vs

import (
	"fmt"
	"sort"
	"strings"
	"testing"
	"time"
)

type obsLog struct{ lines []string }

func (o *obsLog) add(f string, a ...any) { o.lines = append(o.lines, fmt.Sprintf(f, a...)) }

func explore(t *testing.T, prune bool, body func(o *obsLog)) (*Stats, map[string]int) {
	outcomes := map[string]int{}
	fac := func() Exec {
		o := &obsLog{}
		return Exec{
			Body: func() { body(o) },
			Check: func(r *Result) (string, []string) {
				s := r.Status.String() + ":" + strings.Join(o.lines, ",")
				outcomes[s]++
				return s, nil
			},
		}
	}
	st := Explore(fac, Options{Prune: prune, MaxViolations: 1 << 30, Samples: -1})
	if len(st.Errors) > 0 {
		t.Fatalf("machinery errors: %v", st.Errors)
	}
	return st, outcomes
}

func binom(n, k int) int64 {
	r := int64(1)
	for i := 1; i <= k; i++ {
		r = r * int64(n-k+i) / int64(i)
	}
	return r
}

// two goroutines with n yields each: C(2n, n) interleavings (goroutine starts are invisible, taken eagerly)
func TestYieldInterleavings(t *testing.T) {
	for n := 0; n <= 3; n++ {
		st, _ := explore(t, false, func(o *obsLog) {
			for i := 0; i < 2; i++ {
				Go(func() {
					for k := 0; k < n; k++ {
						Yield()
					}
				})
			}
		})
		want := binom(2*n, n)
		if st.Executions != want {
			t.Errorf("n=%d: %d executions, want %d", n, st.Executions, want)
		}
	}
}

// unbuffered rendezvous: only the order of the two starts is a choice
func TestRendezvous(t *testing.T) {
	st, out := explore(t, false, func(o *obsLog) {
		ch := make(chan int)
		Go(func() { Send(ch, 7) })
		Go(func() { o.add("got %d", Recv(ch)) })
	})
	if st.Executions != 1 || len(out) != 1 || out["done:got 7"] != 1 {
		t.Errorf("executions=%d outcomes=%v", st.Executions, out)
	}
}

// cap-1 channel, two sends, two receives: a1<b1<a2<b2 is forced, but a third goroutine's
// two yields interleave freely with those 4 transitions: C(6,2) = 15
func TestBuffered(t *testing.T) {
	st, out := explore(t, false, func(o *obsLog) {
		ch := make(chan int, 1)
		Go(func() { Send(ch, 1); Send(ch, 2) })
		Go(func() { a := Recv(ch); b := Recv(ch); o.add("%d%d", a, b) })
		Go(func() { Yield(); Yield() })
	})
	if st.Executions != 15 || out["done:12"] != 15 {
		t.Errorf("executions=%d outcomes=%v", st.Executions, out)
	}
}

// select with two ready buffered channels and a default that must not be taken
func TestSelectReady(t *testing.T) {
	st, out := explore(t, false, func(o *obsLog) {
		a, b := make(chan int, 1), make(chan string, 1)
		Send(a, 1)
		Send(b, "x")
		ra, rb := RecvCase(a), RecvCase(b)
		switch Select(true, ra, rb) {
		case 0:
			o.add("a%d", ra.V())
		case 1:
			o.add("b%s", rb.V())
		default:
			o.add("default")
		}
	})
	if st.Executions != 2 || out["done:a1"] != 1 || out["done:bx"] != 1 {
		t.Errorf("executions=%d outcomes=%v", st.Executions, out)
	}
}

// select: nil channel never fires, closed channel yields zero,false; send case to a waiting receiver
func TestSelectForms(t *testing.T) {
	_, out := explore(t, false, func(o *obsLog) {
		var nilch chan int
		cl := make(chan int)
		out := make(chan int)
		Go(func() { o.add("r%d", Recv(out)) })
		Close(cl)
		rn, rc, so := RecvCase(nilch), RecvCase(cl), SendCase(out, 5)
		switch Select(false, rn, rc, so) {
		case 0:
			o.add("nil!")
		case 1:
			v, ok := rc.V2()
			o.add("closed %d %v", v, ok)
		case 2:
			o.add("sent")
		}
	})
	var keys []string
	for k := range out {
		keys = append(keys, k)
	}
	sort.Strings(keys)
	// either the closed case fires (receiver stays blocked: deadlock, it is a client) or the send does
	want := []string{"deadlock:closed 0 false", "done:sent,r5"}
	if fmt.Sprint(keys) != fmt.Sprint(want) {
		t.Errorf("outcomes %v want %v", keys, want)
	}
}

// timer vs message: both outcomes; without sender only the timer; virtual clock advances
func TestTimer(t *testing.T) {
	_, out := explore(t, false, func(o *obsLog) {
		ch := make(chan int)
		Go(func() { Send(ch, 1) })
		Go(func() {
			tm := NewTimer(5*time.Second, 0, nil)
			rt, rc := RecvCase[time.Time](tm.C), RecvCase(ch)
			switch Select(false, rt, rc) {
			case 0:
				o.add("timeout@%v", Now().Sub(Epoch))
			case 1:
				o.add("msg stop=%v", tm.Stop())
			}
		})
	})
	var keys []string
	for k := range out {
		keys = append(keys, k)
	}
	sort.Strings(keys)
	want := []string{"deadlock:timeout@5s", "done:msg stop=false", "done:msg stop=true"}
	if fmt.Sprint(keys) != fmt.Sprint(want) {
		t.Errorf("outcomes %v want %v", keys, want)
	}
}

func TestDeadlockAndPanic(t *testing.T) {
	st, _ := explore(t, false, func(o *obsLog) {
		ch := make(chan int)
		Go(func() { Recv(ch) })
	})
	if st.Deadlocks != 1 {
		t.Errorf("deadlocks=%d", st.Deadlocks)
	}
	st, _ = explore(t, false, func(o *obsLog) {
		ch := make(chan int)
		GoSys(func() { Recv(ch) }) // system goroutines may stay blocked
	})
	if st.Deadlocks != 0 || st.Executions != 1 {
		t.Errorf("deadlocks=%d executions=%d", st.Deadlocks, st.Executions)
	}
	st, _ = explore(t, false, func(o *obsLog) {
		ch := make(chan int)
		Go(func() { Close(ch) })
		Go(func() { defer func() { Recv(ch) }(); Send(ch, 1) }) // deferred op must not hang the cleanup
	})
	if st.Panics != 1 || st.Executions != 1 { // close, then the send panics
		t.Errorf("panics=%d executions=%d", st.Panics, st.Executions)
	}
}

// pruning must not change the set of outcomes, only the number of executions
func TestPruneEquivalence(t *testing.T) {
	body := func(o *obsLog) {
		ch := make(chan int, 1)
		res := make(chan int)
		for i := 0; i < 3; i++ {
			i := i
			Go(func() { Yield(); Send(ch, i); Yield() })
		}
		Go(func() {
			s := 0
			for k := 0; k < 3; k++ {
				s = s*10 + Recv(ch)
			}
			Send(res, s)
		})
		Go(func() { o.add("%03d", Recv(res)) })
	}
	st1, out1 := explore(t, false, body)
	st2, out2 := explore(t, true, body)
	if len(out1) != 6 || len(out2) != 6 {
		t.Errorf("outcomes without pruning %d, with %d, want 6", len(out1), len(out2))
	}
	for k := range out1 {
		if out2[k] == 0 {
			t.Errorf("outcome %s lost by pruning", k)
		}
	}
	if st2.Executions+st2.Pruned >= st1.Executions {
		t.Errorf("pruning did not help: %d+%d vs %d", st2.Executions, st2.Pruned, st1.Executions)
	}
	t.Logf("unpruned %d executions; pruned %d executions + %d cut, %d states", st1.Executions, st2.Executions, st2.Pruned, st2.States)
}

// preemption bounding: with budget 0 a goroutine runs until it blocks
func TestPreemptionBound(t *testing.T) {
	outcomes := map[string]bool{}
	fac := func() Exec {
		o := &obsLog{}
		return Exec{Body: func() {
			for i := 0; i < 2; i++ {
				i := i
				Go(func() { Yield(); o.add("%da", i); Yield(); o.add("%db", i) })
			}
		}, Check: func(r *Result) (string, []string) {
			s := strings.Join(o.lines, "")
			outcomes[s] = true
			return s, nil
		}}
	}
	st := Explore(fac, Options{Budgets: []Budget{{0, 0}}})
	if st.Executions != 2 || !outcomes["0a0b1a1b"] || !outcomes["1a1b0a0b"] {
		t.Errorf("budget 0: %d executions %v", st.Executions, outcomes)
	}
	st = Explore(fac, Options{Budgets: []Budget{{Unbounded, 0}}})
	if st.Executions != 6 || len(outcomes) != 6 {
		t.Errorf("unbounded: %d executions %d outcomes", st.Executions, len(outcomes))
	}
}

// environment goroutine: with budget (inf,0) it acts only at quiescence
func TestEnvBudget(t *testing.T) {
	outcomes := map[string]bool{}
	fac := func() Exec {
		o := &obsLog{}
		return Exec{Body: func() {
			rel := make(chan int)
			GoEnv(func() { EnvTurn(); Send(rel, Choose(2)) })
			Go(func() { Yield(); o.add("w1"); Yield(); o.add("w2") })
			Go(func() { o.add("r%d", Recv(rel)) })
		}, Check: func(r *Result) (string, []string) {
			s := strings.Join(o.lines, " ")
			outcomes[s] = true
			return s, nil
		}}
	}
	Explore(fac, Options{Budgets: []Budget{{Unbounded, 0}}})
	for k := range outcomes {
		if !strings.HasPrefix(k, "w1 w2 r") {
			t.Errorf("environment acted early with e=0: %q", k)
		}
	}
	if !outcomes["w1 w2 r0"] || !outcomes["w1 w2 r1"] {
		t.Errorf("outcomes %v", outcomes)
	}
	Explore(fac, Options{Budgets: []Budget{{Unbounded, 1}}})
	if !outcomes["w1 r0 w2"] || !outcomes["w1 r1 w2"] {
		t.Errorf("e=1 found no early injection: %v", outcomes)
	}
}

func TestReplayDeterminism(t *testing.T) {
	fac := func() Exec {
		o := &obsLog{}
		return Exec{Body: func() {
			ch := make(chan int)
			for i := 0; i < 3; i++ {
				i := i
				Go(func() { Send(ch, i) })
			}
			Go(func() { o.add("%d%d%d", Recv(ch), Recv(ch), Recv(ch)) })
		}, Check: func(r *Result) (string, []string) { return strings.Join(o.lines, ""), nil }}
	}
	st := Explore(fac, Options{Prune: true})
	if len(st.Samples) == 0 {
		t.Fatal("no samples")
	}
	for _, s := range st.Samples {
		a := RunOnce(fac, s.Choices, Options{})
		b := RunOnce(fac, s.Choices, Options{})
		if a.Obs != s.Obs || b.Obs != s.Obs || fmt.Sprint(a.Trace) != fmt.Sprint(b.Trace) {
			t.Errorf("replay diverged: %q %q %q", s.Obs, a.Obs, b.Obs)
		}
	}
}

func TestMapKeys(t *testing.T) {
	if mapLayoutErr != nil {
		t.Fatal(mapLayoutErr)
	}
	type node struct{ n int }
	_, out := explore(t, false, func(o *obsLog) {
		m := map[*node]bool{}
		for i := 0; i < 3; i++ {
			m[&node{i}] = true
		}
		s := ""
		for _, k := range MapKeys(m) {
			s += fmt.Sprint(k.n)
		}
		o.add(s)
	})
	if len(out) != 3 || out["done:012"] != 1 || out["done:120"] != 1 || out["done:201"] != 1 {
		t.Errorf("outcomes %v", out)
	}
}

// sharding: the subtrees below the frontier prefixes partition the executions
func TestFrontierAndRoot(t *testing.T) {
	mk := func(count *int) Factory {
		return func() Exec {
			o := &obsLog{}
			return Exec{Body: func() {
				ch := make(chan int, 2)
				for i := 0; i < 3; i++ {
					i := i
					Go(func() { Yield(); Send(ch, i); Yield() })
				}
				Go(func() { o.add("%d%d%d", Recv(ch), Recv(ch), Recv(ch)) })
			}, Check: func(r *Result) (string, []string) { *count++; return strings.Join(o.lines, ""), nil }}
		}
	}
	total := 0
	all := Explore(mk(&total), Options{Samples: -1})
	n := 0
	fr := Explore(mk(&n), Options{FrontierDepth: 3, Samples: -1})
	if len(fr.Roots) < 2 || fr.Executions != 0 && len(fr.Roots) == 0 {
		t.Fatalf("frontier: %d roots", len(fr.Roots))
	}
	var sum int64
	for _, root := range fr.Roots {
		k := 0
		st := Explore(mk(&k), Options{Root: root, Samples: -1})
		if len(st.Errors) > 0 {
			t.Fatalf("root %v: %v", root, st.Errors)
		}
		sum += st.Executions
	}
	// executions that ended before reaching the frontier depth are counted by the frontier pass itself
	if sum+fr.Executions != all.Executions {
		t.Errorf("subtrees %d + shallow %d != all %d (roots %d)", sum, fr.Executions, all.Executions, len(fr.Roots))
	}
}
