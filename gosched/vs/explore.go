package vs

import (
	"fmt"
	"strings"
	"time"
)

// Unbounded is the budget value meaning "no bound".
const Unbounded = 1 << 30

// Budget bounds the deviations from the default schedule: P = preemptions (switching away from
// a still-enabled non-environment goroutine), E = early injections (an environment-class
// transition taken while a non-environment transition is enabled).
type Budget struct {
	P, E int
}

func (b Budget) String() string {
	f := func(x int) string {
		if x >= Unbounded {
			return "inf"
		}
		return fmt.Sprint(x)
	}
	return "(" + f(b.P) + "," + f(b.E) + ")"
}

// Exec is one fresh instance of a harness: Body runs as the root goroutine "0"; Check is the
// oracle, called after every complete execution (status done / deadlock / panic) and before the
// parked goroutines are cleaned up. obs is the canonical observation log of the execution
// (used for the determinism self-test and for counting distinct outcomes).
type Exec struct {
	Body  func()
	Check func(r *Result) (obs string, violations []string)
}

// Factory creates the per-execution state of a harness. It is called once per execution.
type Factory func() Exec

// Result describes one execution.
type Result struct {
	Status     Status
	Msg        string
	Choices    []int // index taken at every choice point (points with >1 alternatives)
	Ns         []int // number of alternatives at every choice point
	Steps      int
	Goroutines []GInfo
	PanicValue string
	PanicStack string
	PanicG     string
	Trace      []string
	Obs        string
	Violations []string
	depth      int
}

// Options of an exploration.
type Options struct {
	Budgets    []Budget // iterative deviation bounding; default: one unbounded run
	Prune      bool     // history-hash pruning
	Deadline   time.Time
	MaxSteps   int // per execution; default 100000
	TimerOrder TimerOrder
	// DelayBounded (added for C14; default off = preemption bounding as before): P counts every
	// deviation from the canonical run-to-block schedule, not only preemptions. When the current
	// goroutine cannot continue, the first enabled non-environment goroutine in creation order runs
	// for free and switching to any other one costs one unit of P (delay bounding). Select / Choose
	// alternatives of the running goroutine stay free. The P=k space is a subset of the
	// preemption-bounded P=k space; it is what makes large harnesses (25+ goroutines) tractable.
	DelayBounded bool
	// LazyTimers (added for C14; default off): an armed channel timer may fire only while somebody
	// can observe it - a goroutine is parked on a receive/select that includes the timer's channel,
	// or its pending operation is Stop/Reset of that timer. Firing commutes with every transition
	// that does not touch the timer, so delaying it to the first such moment loses no behaviour; it
	// removes the 2^n placements of ticks nobody waits for (time.After of a goroutine that has
	// exited, a ticker whose reader is busy elsewhere). AfterFunc timers are not affected.
	LazyTimers bool
	// DeviationBounded (added for the C15 long-backlog family; default off): with a finite P, EVERY
	// alternative of a choice point other than the default one (the first alternative that is free
	// under the rules above) costs one unit of P - also select alternatives, Choose values and
	// non-preemptive switches. P=k is then "all schedules that differ from the canonical one in at
	// most k decisions": linear/quadratic in the length of the execution instead of exponential.
	// Shard/NShards (NShards>1) split that space over processes by the depth of the FIRST deviation
	// (depth mod NShards == Shard); the union over all shards is the whole P-bounded space.
	DeviationBounded bool
	Shard, NShards   int
	Root             []int // fixed choice prefix (the subtree to explore)
	FrontierDepth    int   // >0: cut every execution at that many choice points and collect the prefixes in Stats.Roots
	MaxViolations    int   // stop after that many violations; default 1
	Samples          int   // number of sample executions to keep; default 3, <0 none
}

// Violation is one execution on which the oracle (or the scheduler: deadlock, panic) failed.
type Violation struct {
	Choices  []int    `json:"choices"`
	Ns       []int    `json:"ns"`
	Status   string   `json:"status"`
	Messages []string `json:"messages"`
	Obs      string   `json:"obs"`
}

// Sample is one explored execution, kept for the evidence.
type Sample struct {
	Choices []int    `json:"choices"`
	Status  string   `json:"status"`
	Obs     string   `json:"obs"`
	Trace   []string `json:"schedule,omitempty"`
}

// Stats of an exploration.
type Stats struct {
	Executions       int64       `json:"executions"`  // complete executions (oracle evaluated)
	Pruned           int64       `json:"pruned"`      // executions cut at an already expanded state
	Skipped          int64       `json:"skipped"`     // alternatives not run: their predicted successor state was already expanded
	Transitions      int64       `json:"transitions"` // scheduler steps over all executions
	States           int64       `json:"states"`      // distinct state keys seen at choice points
	ChoicePoints     int64       `json:"choice_points"`
	DistinctOutcomes int64       `json:"distinct_outcomes"`
	MaxChoiceDepth   int         `json:"max_choice_depth"`
	Deadlocks        int64       `json:"deadlocks"`
	Panics           int64       `json:"panics"`
	BudgetsCompleted []string    `json:"budgets_completed"`
	Exhaustive       bool        `json:"exhaustive"` // every requested budget ran to completion
	Violations       []Violation `json:"violations,omitempty"`
	Samples          []Sample    `json:"samples,omitempty"`
	Roots            [][]int     `json:"roots,omitempty"`
	Errors           []string    `json:"errors,omitempty"` // machinery failures (exit 2)
	WallS            float64     `json:"wall_s"`
}

type bud struct{ p, e int32 }

type frame struct {
	n, idx     int
	costOff    int // offset in explorer.arena of this frame's (dp,de) pairs
	succOff    int // offset in explorer.succ of this frame's predicted successor keys (-1: none)
	remP, remE int // budget remaining before this choice
	fixed      bool
}

type explorer struct {
	opt       Options
	frames    []frame
	prefixLen int
	depth     int
	remP      int
	remE      int
	budget    Budget
	bounded   bool
	visited   map[H]bud
	extra     map[H][]bud // further, pairwise incomparable budget pairs of a key (see seen)
	outcomes  map[H]struct{}
	stats     *Stats
	roots     [][]int
	nstates   int64
	nchoice   int64 // choice points expanded beyond the replayed prefix, over all runs (not deduplicated)
	skipped   int64
	arena     []uint8 // (dp,de) per alternative of every frame, in frame order
	succ      []H     // predicted successor key per alternative (zero: unknown), in frame order
	noExtend  bool    // RunOnce: do not prune
}

// seen reports whether key was already expanded with at least the budget (p,q); otherwise it
// records the pair. Per key a Pareto set of budget pairs is kept: one entry in visited and, only
// when incomparable pairs occur (ladders such as (1,0);(0,1), or paths that spent their budgets
// differently), the others in extra. (Keeping a single pair made every visit with a pair
// incomparable to the stored one expand the state again, unrecorded, time after time.)
func (e *explorer) seen(key H, p, q int) bool {
	v, ok := e.visited[key]
	if !ok {
		e.visited[key] = bud{int32(p), int32(q)}
		return false
	}
	if int(v.p) >= p && int(v.e) >= q {
		return true
	}
	if p >= int(v.p) && q >= int(v.e) {
		e.visited[key] = bud{int32(p), int32(q)}
		if xs := e.extra[key]; len(xs) > 0 {
			keep := xs[:0]
			for _, x := range xs {
				if !(p >= int(x.p) && q >= int(x.e)) {
					keep = append(keep, x)
				}
			}
			if len(keep) == 0 {
				delete(e.extra, key)
			} else {
				e.extra[key] = keep
			}
		}
		return false
	}
	// incomparable with the first entry
	xs := e.extra[key]
	for _, x := range xs {
		if int(x.p) >= p && int(x.e) >= q {
			return true
		}
	}
	keep := xs[:0]
	for _, x := range xs {
		if !(p >= int(x.p) && q >= int(x.e)) {
			keep = append(keep, x)
		}
	}
	if e.extra == nil {
		e.extra = map[H][]bud{}
	}
	e.extra[key] = append(keep, bud{int32(p), int32(q)})
	return false
}

func (e *explorer) choose(s *sched, ts []trans) (int, Status) {
	d := e.depth
	e.depth++
	n := len(ts)
	// an unbounded budget is never consumed (otherwise "remaining budget" would differ between two
	// paths to the same state and the state would be expanded again for nothing)
	if e.budget.P >= Unbounded || e.budget.E >= Unbounded {
		for i := range ts {
			if e.budget.P >= Unbounded {
				ts[i].dp = 0
			}
			if e.budget.E >= Unbounded {
				ts[i].de = 0
			}
		}
	}
	if e.opt.DeviationBounded && e.budget.P < Unbounded {
		// deviation bounding: the first free alternative is THE default; every other one costs a unit
		def := -1
		for i := range ts {
			if ts[i].dp == 0 && ts[i].de == 0 {
				def = i
				break
			}
		}
		first := e.remP == e.budget.P // no deviation made yet on this path
		for i := range ts {
			if i == def {
				continue
			}
			if ts[i].dp == 0 {
				ts[i].dp = 1
			}
			if first && e.opt.NShards > 1 && d%e.opt.NShards != e.opt.Shard {
				ts[i].dp = 250 // the first deviation at this depth belongs to another shard
			}
		}
	}
	if d < e.prefixLen {
		f := &e.frames[d]
		if f.n != n {
			s.errMsg = fmt.Sprintf("replay divergence at choice point %d: %d alternatives recorded, %d now", d, f.n, n)
			return -1, StatusDiverged
		}
		t := &ts[f.idx]
		e.remP -= int(t.dp)
		e.remE -= int(t.de)
		return f.idx, 0
	}
	forced := d < len(e.opt.Root)
	if !forced {
		if e.opt.FrontierDepth > 0 && d >= e.opt.FrontierDepth {
			r := make([]int, len(e.frames))
			for i := range e.frames {
				r[i] = e.frames[i].idx
			}
			e.roots = append(e.roots, r)
			return -1, StatusCut
		}
		if e.opt.Prune && !e.noExtend {
			if e.seen(s.key(e.bounded), e.remP, e.remE) {
				return -1, StatusPruned
			}
			e.nstates++
		}
	}
	f := frame{n: n, remP: e.remP, remE: e.remE, fixed: forced, costOff: len(e.arena), succOff: -1}
	for i := range ts {
		e.arena = append(e.arena, ts[i].dp, ts[i].de)
	}
	costs := e.arena[f.costOff:]
	// look-ahead: the key of every successor is predicted from the histories, so that an
	// alternative leading to an already expanded state is skipped without running it
	lookahead := !forced && e.opt.Prune && !e.noExtend
	if lookahead {
		f.succOff = len(e.succ)
		for i := range ts {
			k, ok := s.succKey(&ts[i], e.bounded)
			if !ok {
				k = H{}
			}
			e.succ = append(e.succ, k)
		}
	}
	if forced {
		f.idx = e.opt.Root[d]
		if f.idx >= n {
			s.errMsg = fmt.Sprintf("replay divergence at choice point %d: choice %d of %d alternatives", d, f.idx, n)
			return -1, StatusDiverged
		}
	} else {
		f.idx = -1
		affordable := false
		for i := 0; i < n; i++ {
			if int(costs[2*i]) <= e.remP && int(costs[2*i+1]) <= e.remE {
				affordable = true
				if lookahead && e.skip(&f, i) {
					continue
				}
				f.idx = i
				break
			}
		}
		if !affordable {
			// cannot happen: there is always a zero-cost alternative
			s.errMsg = "no affordable alternative"
			return -1, StatusHarnessError
		}
		if f.idx < 0 {
			// every successor has been expanded already
			e.arena = e.arena[:f.costOff]
			e.succ = e.succ[:f.succOff]
			return -1, StatusPruned
		}
	}
	e.remP -= int(costs[2*f.idx])
	e.remE -= int(costs[2*f.idx+1])
	e.frames = append(e.frames, f)
	e.nchoice++
	return f.idx, 0
}

// single handles a forced step: if its predicted successor state was already expanded (with at
// least the remaining budget) the execution ends there; otherwise the successor is recorded as
// expanded, so that other paths into it can be cut by look-ahead.
func (e *explorer) single(s *sched, t *trans) bool {
	if !e.opt.Prune || e.noExtend || e.depth < e.prefixLen || e.depth < len(e.opt.Root) {
		return false
	}
	if k, ok := s.succKey(t, e.bounded); ok {
		return e.seen(k, e.remP, e.remE)
	}
	return false
}

// skip reports whether alternative i of frame f leads to a state that was already expanded with at
// least the budget that would remain; if not, the successor is recorded as expanded (it is about
// to be).
func (e *explorer) skip(f *frame, i int) bool {
	if f.succOff < 0 {
		return false
	}
	k := e.succ[f.succOff+i]
	if k == (H{}) {
		return false
	}
	costs := e.arena[f.costOff:]
	if e.seen(k, f.remP-int(costs[2*i]), f.remE-int(costs[2*i+1])) {
		e.skipped++
		return true
	}
	return false
}

// backtrack moves to the next unexplored alternative; false when the tree is exhausted.
func (e *explorer) backtrack() bool {
	for len(e.frames) > 0 {
		f := &e.frames[len(e.frames)-1]
		if f.fixed {
			return false
		}
		next := -1
		costs := e.arena[f.costOff:]
		for i := f.idx + 1; i < f.n; i++ {
			if int(costs[2*i]) <= f.remP && int(costs[2*i+1]) <= f.remE {
				if e.skip(f, i) {
					continue
				}
				next = i
				break
			}
		}
		if next >= 0 {
			f.idx = next
			e.prefixLen = len(e.frames)
			return true
		}
		e.frames = e.frames[:len(e.frames)-1]
	}
	return false
}

func (e *explorer) runOne(fac Factory, tracing bool) *Result {
	ex := fac()
	s := &sched{ch: e, maxSteps: e.opt.MaxSteps, tmrOrder: e.opt.TimerOrder, delay: e.opt.DelayBounded, lazyTmr: e.opt.LazyTimers, tracing: tracing}
	if s.maxSteps == 0 {
		s.maxSteps = 100000
	}
	e.depth = 0
	e.remP, e.remE = e.budget.P, e.budget.E
	e.frames = e.frames[:e.prefixLen]
	if e.prefixLen == 0 {
		e.arena = e.arena[:0]
		e.succ = e.succ[:0]
	} else {
		last := &e.frames[e.prefixLen-1]
		e.arena = e.arena[:last.costOff+2*last.n]
		// succ is a stack parallel to the frames that have look-ahead keys
		n := 0
		for i := e.prefixLen - 1; i >= 0; i-- {
			if fr := &e.frames[i]; fr.succOff >= 0 {
				n = fr.succOff + fr.n
				break
			}
		}
		e.succ = e.succ[:n]
	}
	r := &Result{}
	finish := func() {
		r.Status = s.status
		r.Msg = s.errMsg
		r.Steps = s.nsteps
		r.Trace = s.trace
		r.depth = len(e.frames)
		if s.status != StatusPruned && s.status != StatusCut {
			r.Choices = make([]int, len(e.frames))
			r.Ns = make([]int, len(e.frames))
			for i := range e.frames {
				r.Choices[i] = e.frames[i].idx
				r.Ns[i] = e.frames[i].n
			}
		}
		switch s.status {
		case StatusDone, StatusDeadlock, StatusPanic:
			r.Goroutines = s.ginfo()
			if s.status == StatusPanic {
				r.PanicValue = fmt.Sprint(s.panicVal)
				r.PanicStack = s.panicStack
				r.PanicG = s.panicG
				r.Violations = append(r.Violations, fmt.Sprintf("panic in goroutine %s: %v", s.panicG, s.panicVal))
			}
			if s.status == StatusDeadlock {
				var b []string
				for _, g := range r.Goroutines {
					if !g.Done && g.Class == "client" {
						b = append(b, fmt.Sprintf("%s[%s] blocked at %s", g.ID, g.Label, g.Pending))
					}
				}
				r.Violations = append(r.Violations, "deadlock: "+strings.Join(b, "; "))
			}
			if ex.Check != nil {
				obs, v := ex.Check(r)
				r.Obs = obs
				r.Violations = append(r.Violations, v...)
			}
		}
	}
	s.finish = finish
	s.run(ex.Body)
	return r
}

// RunOnce replays choices (then takes the first alternative everywhere) with tracing on.
func RunOnce(fac Factory, choices []int, opt Options) *Result {
	opt.Root = choices
	opt.Prune = false
	opt.FrontierDepth = 0
	e := &explorer{opt: opt, budget: Budget{Unbounded, Unbounded}, noExtend: true}
	return e.runOne(fac, true)
}

// Explore enumerates the executions of the harness within the budgets.
func Explore(fac Factory, opt Options) *Stats {
	start := time.Now()
	st := &Stats{Exhaustive: true}
	if len(opt.Budgets) == 0 {
		opt.Budgets = []Budget{{Unbounded, Unbounded}}
	}
	if opt.MaxViolations == 0 {
		opt.MaxViolations = 1
	}
	if opt.Samples == 0 {
		opt.Samples = 3
	} else if opt.Samples < 0 {
		opt.Samples = 0
	}
	e := &explorer{opt: opt, stats: st, visited: map[H]bud{}, outcomes: map[H]struct{}{}}
	var sampleAt int64 = 1
	stop := false
	for _, b := range opt.Budgets {
		e.budget = b
		e.bounded = b.P < Unbounded || b.E < Unbounded
		e.frames = e.frames[:0]
		e.prefixLen = 0
		completed := true
		for n := 0; ; n++ {
			if n&63 == 0 && !opt.Deadline.IsZero() && time.Now().After(opt.Deadline) {
				completed = false
				stop = true
				break
			}
			r := e.runOne(fac, false)
			st.Transitions += int64(r.Steps)
			if r.depth > st.MaxChoiceDepth {
				st.MaxChoiceDepth = r.depth
			}
			switch r.Status {
			case StatusPruned:
				st.Pruned++
			case StatusCut:
			case StatusDone, StatusDeadlock, StatusPanic:
				st.Executions++
				if r.Status == StatusDeadlock {
					st.Deadlocks++
				}
				if r.Status == StatusPanic {
					st.Panics++
				}
				e.outcomes[strHash(r.Obs)] = struct{}{}
				if st.Executions == sampleAt && len(st.Samples) < opt.Samples {
					st.Samples = append(st.Samples, Sample{Choices: r.Choices, Status: r.Status.String(), Obs: r.Obs})
					sampleAt *= 20
				}
				if len(r.Violations) > 0 {
					st.Violations = append(st.Violations, Violation{Choices: r.Choices, Ns: r.Ns, Status: r.Status.String(), Messages: r.Violations, Obs: r.Obs})
					if len(st.Violations) >= opt.MaxViolations {
						completed = false
						stop = true
					}
				}
			default:
				st.Errors = append(st.Errors, fmt.Sprintf("%s: %s (choices %v)", r.Status, r.Msg, r.Choices))
				completed = false
				stop = true
			}
			if stop || !e.backtrack() {
				break
			}
		}
		if completed {
			st.BudgetsCompleted = append(st.BudgetsCompleted, b.String())
		} else {
			st.Exhaustive = false
		}
		if stop {
			break
		}
	}
	st.States = e.nstates
	st.ChoicePoints = e.nchoice
	st.Skipped = e.skipped
	st.DistinctOutcomes = int64(len(e.outcomes))
	st.Roots = e.roots
	// re-run the samples with tracing on, so that the evidence shows actual schedules
	if len(st.Errors) == 0 {
		for i := range st.Samples {
			r := RunOnce(fac, st.Samples[i].Choices, opt)
			st.Samples[i].Trace = r.Trace
		}
	}
	st.WallS = time.Since(start).Seconds()
	return st
}
