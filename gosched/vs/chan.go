package vs

import (
	"reflect"
	"runtime"
	"unsafe"
)

// Channels stay real `chan T` values; they are used purely as identities. The scheduler keeps
// its own model (FIFO buffer, closed flag) of every channel it has seen. A channel that is
// really closed by un-instrumented code (context.Done()) is noticed by non-blocking polling.

func chanPtr[T any](ch <-chan T) unsafe.Pointer  { return *(*unsafe.Pointer)(unsafe.Pointer(&ch)) }
func chanPtrS[T any](ch chan<- T) unsafe.Pointer { return *(*unsafe.Pointer)(unsafe.Pointer(&ch)) }

func (s *sched) model(p unsafe.Pointer, keep any, capacity int) *chanModel {
	if p == nil {
		return nil
	}
	cm := s.chans[p]
	if cm == nil {
		cm = &chanModel{seq: len(s.chans), id: uintptr(p), elem: reflect.TypeOf(keep).Elem(), keep: keep, cap: capacity}
		s.chans[p] = cm
	}
	return cm
}

func modelR[T any](s *sched, ch <-chan T) *chanModel {
	cm := s.model(chanPtr(ch), ch, cap(ch))
	if cm != nil && cm.poll == nil {
		cm.poll = func() (bool, bool) {
			select {
			case _, ok := <-ch:
				return !ok, ok
			default:
				return false, false
			}
		}
	}
	return cm
}

func modelS[T any](s *sched, ch chan<- T) *chanModel {
	return s.model(chanPtrS(ch), ch, cap(ch))
}

func unbox[T any](a any) T {
	v, _ := a.(T)
	return v
}

// Sender fixes the element type of a send, so that the value operand is converted by
// assignment (as in `ch <- v`) instead of taking part in type inference.
type Sender[T any] struct{ ch chan<- T }

// Chan is the first half of a send: vs.Chan(ch).Send(v) is `ch <- v`, and
// vs.Chan(ch).SendCase(v) is the select alternative `case ch <- v`.
func Chan[T any](ch chan<- T) Sender[T] { return Sender[T]{ch} }

func (s Sender[T]) Send(v T)               { Send(s.ch, v) }
func (s Sender[T]) SendCase(v T) *SCase[T] { return SendCase(s.ch, v) }

// Send is `ch <- v`.
func Send[T any](ch chan<- T, v T) {
	s := active
	if s == nil {
		ch <- v
		return
	}
	g := s.cur
	g.casebuf[0] = selCase{cm: modelS(s, ch), send: true, val: v}
	g.opbuf = op{kind: kSelect, cases: g.casebuf[:1]}
	s.block(&g.opbuf)
}

// Recv is `<-ch`.
func Recv[T any](ch <-chan T) T {
	s := active
	if s == nil {
		return <-ch
	}
	g := s.cur
	g.casebuf[0] = selCase{cm: modelR(s, ch)}
	g.opbuf = op{kind: kSelect, cases: g.casebuf[:1]}
	s.block(&g.opbuf)
	v := unbox[T](g.rv)
	g.rv = nil
	return v
}

// Recv2 is `v, ok := <-ch`.
func Recv2[T any](ch <-chan T) (T, bool) {
	s := active
	if s == nil {
		v, ok := <-ch
		return v, ok
	}
	g := s.cur
	g.casebuf[0] = selCase{cm: modelR(s, ch)}
	g.opbuf = op{kind: kSelect, cases: g.casebuf[:1]}
	s.block(&g.opbuf)
	v := unbox[T](g.rv)
	g.rv = nil
	return v, g.rok
}

// Close is `close(ch)`.
func Close[T any](ch chan<- T) {
	s := active
	if s == nil {
		close(ch)
		return
	}
	if chanPtrS(ch) == nil {
		panic("close of nil channel")
	}
	cm := modelS(s, ch)
	g := s.cur
	o := &op{kind: kSimple, desc: "close " + chName(cm)}
	o.apply = func() {
		if cm.closed {
			g.panicMsg = "close of closed channel"
			return
		}
		cm.closed = true
		h := g.h.fold(cOp).foldH(cm.sendH)
		s.setH(g, h)
		cm.sendH = cm.sendH.foldH(h)
		cm.closeStamp = h
	}
	s.block(o)
}

// Len is `len(ch)`. It is a scheduling point: the result depends on other goroutines.
func Len[T any](ch <-chan T) int {
	s := active
	if s == nil {
		return len(ch)
	}
	cm := modelR(s, ch)
	if cm == nil {
		return 0
	}
	g := s.cur
	n := 0
	o := &op{kind: kSimple, desc: "len " + chName(cm)}
	o.apply = func() {
		n = len(cm.buf)
		s.setH(g, g.h.fold2(cOp, uint64(n)))
	}
	s.block(o)
	return n
}

// Cap is `cap(ch)`.
func Cap[T any](ch <-chan T) int { return cap(ch) }

// RecvCount returns how many values have been received from ch so far in this execution.
// It is a harness-side observation (a scheduling point, folded into the caller's history);
// instrumented code never calls it.
func RecvCount[T any](ch <-chan T) int {
	s := active
	if s == nil {
		return 0 // free-running: not observable
	}
	cm := modelR(s, ch)
	if cm == nil {
		return 0
	}
	if s.status != StatusRunning {
		return cm.nrecv // called from the oracle after the execution ended
	}
	g := s.cur
	n := 0
	o := &op{kind: kSimple, desc: "recvcount " + chName(cm)}
	o.apply = func() {
		n = cm.nrecv
		s.setH(g, g.h.fold2(cOp, uint64(n)))
	}
	s.block(o)
	return n
}

// SendCount returns how many sends on ch have completed so far in this execution (buffered sends
// included, so a reply that would silently sit in a buffer is still *seen*). Harness-side
// observation like RecvCount: a scheduling point, folded into the caller's history.
func SendCount[T any](ch chan<- T) int {
	s := active
	if s == nil {
		return 0
	}
	cm := modelS(s, ch)
	if cm == nil {
		return 0
	}
	if s.status != StatusRunning {
		return cm.nsend // called from the oracle after the execution ended
	}
	g := s.cur
	n := 0
	o := &op{kind: kSimple, desc: "sendcount " + chName(cm)}
	o.apply = func() {
		n = cm.nsend
		s.setH(g, g.h.fold2(cOp, uint64(n)))
	}
	s.block(o)
	return n
}

// Case is one alternative of a Select.
type Case interface {
	sc() *selCase
	reflectCase() reflect.SelectCase
	set(v any, ok bool)
	setReflect(v reflect.Value, ok bool)
}

// RCase is a receive alternative; V / V2 extract the received value after Select returned its index.
type RCase[T any] struct {
	c    selCase
	real <-chan T
	v    T
	ok   bool
}

// SCase is a send alternative.
type SCase[T any] struct {
	c    selCase
	real chan<- T
	v    T
}

// RecvCase builds the alternative `case ... <-ch`.
func RecvCase[T any](ch <-chan T) *RCase[T] {
	r := &RCase[T]{real: ch}
	if s := active; s != nil {
		r.c.cm = modelR(s, ch)
	}
	return r
}

// SendCase builds the alternative `case ch <- v`.
func SendCase[T any](ch chan<- T, v T) *SCase[T] {
	c := &SCase[T]{real: ch, v: v}
	if s := active; s != nil {
		c.c = selCase{cm: modelS(s, ch), send: true, val: v}
	}
	return c
}

func (r *RCase[T]) sc() *selCase { return &r.c }
func (r *RCase[T]) reflectCase() reflect.SelectCase {
	return reflect.SelectCase{Dir: reflect.SelectRecv, Chan: reflect.ValueOf(r.real)}
}
func (r *RCase[T]) set(v any, ok bool) { r.v, r.ok = unbox[T](v), ok }
func (r *RCase[T]) setReflect(v reflect.Value, ok bool) {
	if ok {
		reflect.ValueOf(&r.v).Elem().Set(v)
	}
	r.ok = ok
}

// V returns the received value.
func (r *RCase[T]) V() T { return r.v }

// V2 returns the received value and the "ok" flag (false: channel closed).
func (r *RCase[T]) V2() (T, bool) { return r.v, r.ok }

func (c *SCase[T]) sc() *selCase { return &c.c }
func (c *SCase[T]) reflectCase() reflect.SelectCase {
	if c.real == nil {
		return reflect.SelectCase{Dir: reflect.SelectSend}
	}
	return reflect.SelectCase{Dir: reflect.SelectSend, Chan: reflect.ValueOf(c.real), Send: reflect.ValueOf(&c.v).Elem()}
}
func (c *SCase[T]) set(v any, ok bool)                  {}
func (c *SCase[T]) setReflect(v reflect.Value, ok bool) {}

// Select is the select statement: it returns the index of the chosen alternative, or -1 for default.
func Select(hasDefault bool, cases ...Case) int {
	s := active
	if s == nil {
		rc := make([]reflect.SelectCase, 0, len(cases)+1)
		for _, c := range cases {
			x := c.reflectCase()
			if x.Dir == reflect.SelectRecv && (!x.Chan.IsValid() || x.Chan.IsNil()) {
				x = reflect.SelectCase{Dir: reflect.SelectRecv}
			}
			if x.Dir == reflect.SelectSend && x.Chan.IsValid() && x.Chan.IsNil() {
				x = reflect.SelectCase{Dir: reflect.SelectSend}
			}
			rc = append(rc, x)
		}
		if hasDefault {
			rc = append(rc, reflect.SelectCase{Dir: reflect.SelectDefault})
		}
		i, v, ok := reflect.Select(rc)
		if i == len(cases) {
			return -1
		}
		cases[i].setReflect(v, ok)
		return i
	}
	if len(cases) == 0 && !hasDefault {
		// select {} blocks forever
		o := &op{kind: kSimple, desc: "select{}", enabled: func() bool { return false }}
		s.block(o)
		runtime.Goexit()
	}
	g := s.cur
	o := &g.opbuf
	*o = op{kind: kSelect, hasDefault: hasDefault}
	if len(cases) <= len(g.casebuf) {
		o.cases = g.casebuf[:len(cases)]
	} else {
		o.cases = make([]selCase, len(cases))
	}
	for i, c := range cases {
		o.cases[i] = *c.sc()
	}
	s.block(o)
	i := g.selIdx
	if i >= 0 {
		cases[i].set(g.rv, g.rok)
		g.rv = nil
	}
	return i
}
