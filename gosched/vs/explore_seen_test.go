package vs

import "testing"

// The visited table keeps a Pareto set of (preemption, early-injection) budget pairs per state key:
// a visit with a pair that is incomparable to the stored one must be recorded, otherwise every later
// visit with that pair expands the state again (ladders such as (1,0);(0,1) degenerate).
func TestSeenKeepsIncomparableBudgets(t *testing.T) {
	e := &explorer{visited: map[H]bud{}}
	k := H{1, 2}
	step := func(p, q int, want bool) {
		t.Helper()
		if got := e.seen(k, p, q); got != want {
			t.Fatalf("seen(%d,%d) = %v, want %v (visited %v extra %v)", p, q, got, want, e.visited[k], e.extra[k])
		}
	}
	step(1, 0, false) // first visit
	step(1, 0, true)
	step(0, 0, true)  // dominated
	step(0, 1, false) // incomparable: expanded once ...
	step(0, 1, true)  // ... and remembered
	step(1, 0, true)
	step(0, 2, false) // dominates (0,1), incomparable with (1,0)
	step(0, 1, true)
	step(1, 2, false) // dominates everything
	step(1, 0, true)
	step(0, 2, true)
	step(1, 2, true)
	if len(e.extra[k]) != 0 {
		t.Fatalf("dominated pairs were not dropped: %v", e.extra[k])
	}
}
