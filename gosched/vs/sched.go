// Package vs is the runtime of the gosched engine: a cooperative scheduler under which
// mechanically instrumented Go code runs, one goroutine at a time, with every scheduling
// and data choice delegated to an explorer (see explore.go).
//
// Exactly one managed goroutine holds the run token at any time. Every hooked operation
// (channel op, select, mutex op, timer op, Yield ...) publishes a pending operation and calls
// the scheduler, which computes the enabled transitions, asks the explorer for one, applies
// it and hands the token to the goroutine that owns it.
//
// When no execution is active (Active()==false) every entry point falls through to the real
// Go operation, so instrumented packages still work free-running (used for the -race pass).
package vs

import (
	"fmt"
	"os"
	"reflect"
	"runtime"
	"runtime/debug"
	"strconv"
	"strings"
	"time"
	"unsafe"
)

// Class of a managed goroutine.
type Class uint8

const (
	// ClassSys: spawned by instrumented code (vs.GoSys). May be blocked when an execution ends.
	ClassSys Class = iota
	// ClassClient: spawned by harness code (vs.Go). Must have finished when an execution ends,
	// otherwise the execution is a deadlock.
	ClassClient
	// ClassDaemon: harness goroutine that may stay blocked forever (vs.GoDaemon).
	ClassDaemon
	// ClassEnv: environment goroutine (vs.GoEnv). Scheduling it while a non-environment
	// transition is enabled costs one unit of the early-injection budget.
	ClassEnv
)

func (c Class) String() string {
	return [...]string{"sys", "client", "daemon", "env"}[c]
}

// Status of a finished execution.
type Status int

const (
	StatusRunning      Status = iota
	StatusDone                // no transition enabled, every client goroutine finished
	StatusDeadlock            // no transition enabled, some client goroutine unfinished
	StatusPanic               // a managed goroutine panicked
	StatusPruned              // explorer cut the execution (state already expanded)
	StatusCut                 // explorer cut the execution (depth limit of the frontier pass)
	StatusStepLimit           // more than MaxSteps transitions (livelock or harness too large)
	StatusDiverged            // replay prefix did not fit the execution (machinery failure)
	StatusHarnessError        // shim misuse (value on a foreign channel, stuck goroutine, ...)
)

func (s Status) String() string {
	return [...]string{"running", "done", "deadlock", "panic", "pruned", "cut", "steplimit", "diverged", "harness-error"}[s]
}

const (
	kStart uint8 = iota
	kResume
	kSelect
	kSimple
	kChoose
)

// fold modes of simple operations on an Obj
const (
	foldNone    uint8 = iota
	foldAcquire       // goroutine observes the object's history
	foldRelease       // object's history absorbs the goroutine's
	foldChain         // both (totally ordered operations on the object)
	foldCommute       // object's history absorbs the goroutine's commutatively (WaitGroup.Done, RUnlock)
)

const (
	cSpawn uint64 = iota + 1
	cDone
	cSend
	cSendBuf
	cRecv
	cRecvBuf
	cRecvClosed
	cDefault
	cChoose
	cNote
	cOp
	cTimer
	cPanicSend
)

// Obj is the history of a synchronisation object (mutex, wait group, timer ...).
type Obj struct {
	h H
}

type selCase struct {
	cm   *chanModel
	send bool
	val  any
}

type op struct {
	kind       uint8
	cases      []selCase
	hasDefault bool
	n          int
	obj        *Obj
	fold       uint8
	enabled    func() bool
	apply      func()
	pure       bool // apply (if any) does not touch any history hash: the successor key is predictable
	strict     bool // environment op that is charged as an early injection even when its goroutine holds the token (EnvQuiesce)
	desc       string
}

var startOp = &op{kind: kStart, desc: "start"}
var resumeOp = &op{kind: kResume, desc: "resume"}

// G is a managed goroutine.
type G struct {
	id     string
	label  string
	idx    int
	class  Class
	nspawn int
	nops   int
	wake   chan struct{}
	exited chan struct{}
	h      H
	op     *op
	done   bool

	opbuf     op
	casebuf   [6]selCase
	selIdx    int
	rv        any
	rok       bool
	chooseRes int
	panicMsg  string
}

func (g *G) name() string {
	if g.label != "" {
		return g.id + "(" + g.label + ")"
	}
	return g.id
}

type item struct {
	v     any
	stamp H
}

type chanModel struct {
	seq        int
	id         uintptr      // identity of the real channel (tap.go)
	elem       reflect.Type // element type (tap.go)
	keep       any
	cap        int
	buf        []item
	closed     bool
	closeStamp H
	sendH      H
	nrecv      int
	nsend      int
	poll       func() (closed bool, gotValue bool)
}

const (
	tOp uint8 = iota
	tCase
	tRendezvous
	tDefault
	tChoose
	tTimer
)

type trans struct {
	kind    uint8
	g       *G // owner: the goroutine that holds the token afterwards (unless cur is the partner)
	ci      int
	partner *G
	pj      int
	tm      *Timer
	dp, de  uint8
}

// chooser is implemented by the explorer.
type chooser interface {
	// choose returns the index of the transition to take, or -1 to end the execution
	// with the given status.
	choose(s *sched, ts []trans) (int, Status)
	// single is told about a step that has exactly one enabled transition (no choice); it returns
	// true to end the execution there (the successor state was expanded before).
	single(s *sched, t *trans) bool
}

type sched struct {
	gs       []*G
	cur      *G // holder of the run token
	chooser  *G // goroutine parked at a Choose (data choice), if any
	pcur     *G // "current" goroutine for preemption accounting: owner of the last visible transition
	chans    map[unsafe.Pointer]*chanModel
	timers   []*Timer
	ntimers  int
	tmrH     H
	now      time.Duration
	keySum   H
	nsteps   int
	npending int // goroutines with a pending start/resume
	nchoice  int

	ch       chooser
	maxSteps int
	tmrOrder TimerOrder
	delay    bool // Options.DelayBounded
	lazyTmr  bool // Options.LazyTimers

	status     Status
	errMsg     string
	panicVal   any
	panicStack string
	panicG     string

	poison  bool
	doneCh  chan struct{}
	tbuf    []trans
	finish  func() // called by the controller after the execution ended, before cleanup
	tracing bool
	trace   []string
	tap     func(TapEvent) // tap.go
}

// active is the execution in progress (nil = pass-through mode).
var active *sched

// Active reports whether a controlled execution is in progress.
func Active() bool { return active != nil }

func (s *sched) setH(g *G, h H) {
	s.keySum.sub(g.h.contrib())
	g.h = h
	s.keySum.add(h.contrib())
}

func (s *sched) key(bounded bool) H {
	k := s.keySum
	k.add(s.tmrH.contrib())
	if bounded && s.pcur != nil {
		k = k.fold(strHash(s.pcur.id)[0])
	}
	return k
}

const lookaheadTag = 0x6c6f6f6b61686561

// succKey predicts, without applying it, the key of the state reached by transition t (tagged, so
// that it lives in its own key space). ok=false when the effect on the histories is not predictable
// (operations whose apply function folds a result, AfterFunc timers).
func (s *sched) succKey(t *trans, bounded bool) (H, bool) {
	k := s.keySum
	tm := s.tmrH
	repl := func(g *G, nh H) {
		k.sub(g.h.contrib())
		k.add(nh.contrib())
	}
	switch t.kind {
	case tRendezvous:
		hs := t.g.h
		repl(t.g, hs.fold2(cSend, uint64(t.ci)))
		repl(t.partner, t.partner.h.fold2(cRecv, uint64(t.pj)).foldH(hs))
	case tCase:
		g := t.g
		c := &g.op.cases[t.ci]
		cm := c.cm
		switch {
		case c.send && cm.closed:
			repl(g, g.h.fold2(cPanicSend, uint64(t.ci)))
		case c.send:
			repl(g, g.h.fold2(cSendBuf, uint64(t.ci)).foldH(cm.sendH))
		case len(cm.buf) > 0:
			repl(g, g.h.fold2(cRecvBuf, uint64(t.ci)).foldH(cm.buf[0].stamp))
		default:
			repl(g, g.h.fold2(cRecvClosed, uint64(t.ci)).foldH(cm.closeStamp))
		}
	case tDefault:
		repl(t.g, t.g.h.fold(cDefault))
	case tChoose:
		repl(t.g, t.g.h.fold2(cChoose, uint64(t.ci)))
	case tOp:
		o := t.g.op
		if o.kind != kSimple || !(o.pure || o.apply == nil) {
			return H{}, false
		}
		if o.obj != nil && (o.fold == foldAcquire || o.fold == foldChain) {
			repl(t.g, t.g.h.fold(cOp).foldH(o.obj.h))
		} else {
			repl(t.g, t.g.h.fold(cOp))
		}
	case tTimer:
		if t.tm.fn != nil {
			return H{}, false
		}
		tm = tm.foldH(t.tm.id).fold(uint64(t.tm.deadline))
	default:
		return H{}, false
	}
	k.add(tm.contrib())
	if bounded {
		pc := s.pcur
		if !(pc != nil && t.involves(pc)) && t.g != nil {
			pc = t.g
		}
		if pc != nil {
			k = k.fold(strHash(pc.id)[0])
		}
	}
	return k.fold(lookaheadTag), true
}

func (s *sched) newG(parent *G, f func(), class Class) *G {
	g := &G{class: class, wake: make(chan struct{}, 1), exited: make(chan struct{}), op: startOp, idx: len(s.gs)}
	if parent == nil {
		g.id = "0"
		g.h = strHash(g.id)
	} else {
		g.id = parent.id + "." + strconv.Itoa(parent.nspawn)
		parent.nspawn++
		g.h = strHash(g.id).foldH(parent.h)
		s.setH(parent, parent.h.fold(cSpawn))
	}
	s.keySum.add(g.h.contrib())
	s.gs = append(s.gs, g)
	s.npending++
	go s.gmain(g, f)
	return g
}

// growStack forces one stack growth while the new goroutine's stack is still shallow (cheap to
// copy); otherwise every goroutine of every execution grows 2K->4K->8K in the middle of deep calls.
//
//go:noinline
func growStack(n int) byte {
	var buf [6144]byte
	buf[n&1023] = 1
	return buf[(n+1)&1023]
}

func (s *sched) gmain(g *G, f func()) {
	_ = growStack(len(g.id))
	defer close(g.exited)
	<-g.wake
	if s.poison {
		return
	}
	defer func() {
		if s.poison {
			recover()
			return
		}
		if r := recover(); r != nil {
			if s.status == StatusRunning {
				s.status = StatusPanic
				s.panicVal = r
				s.panicG = g.name()
				s.panicStack = string(debug.Stack())
			}
			s.signalDone()
			return
		}
		g.done = true
		g.op = nil
		s.setH(g, g.h.fold(cDone))
		if s.tracing {
			s.trace = append(s.trace, g.name()+" exits")
		}
		next := s.step()
		if next != nil {
			next.wake <- struct{}{}
		} else {
			s.signalDone()
		}
	}()
	f()
}

func (s *sched) signalDone() {
	select {
	case s.doneCh <- struct{}{}:
	default:
	}
}

// block publishes o as the pending operation of the running goroutine and schedules.
func (s *sched) block(o *op) *G {
	g := s.cur
	if s.poison {
		runtime.Goexit()
	}
	g.op = o
	g.nops++
	if o.kind == kChoose {
		s.chooser = g
	}
	next := s.step()
	if next != g {
		if next != nil {
			next.wake <- struct{}{}
		} else {
			s.signalDone()
		}
		<-g.wake
		if s.poison {
			runtime.Goexit()
		}
	}
	if g.panicMsg != "" {
		m := g.panicMsg
		g.panicMsg = ""
		panic(m)
	}
	return g
}

func (s *sched) fail(st Status, format string, args ...any) {
	if s.status == StatusRunning {
		s.status = st
		s.errMsg = fmt.Sprintf(format, args...)
	}
}

// step chooses and applies transitions until one hands the token to a goroutine; it
// returns nil when the execution is over.
func (s *sched) step() *G {
	for {
		if s.status != StatusRunning {
			return nil
		}
		s.nsteps++
		if s.nsteps > s.maxSteps {
			s.fail(StatusStepLimit, "more than %d transitions in one execution", s.maxSteps)
			return nil
		}
		// Invisible transitions (the first block of a new goroutine, the continuation of a
		// rendezvous partner) are purely local under the engine's premise, hence independent of
		// every other transition: they are taken at once, in canonical order, without a choice.
		if g := s.invisible(); g != nil {
			if s.tracing && g.op.kind == kStart {
				s.trace = append(s.trace, g.name()+" starts")
			}
			// (no fold: these steps are flushed before every choice point, so "pending" and
			// "taken" never need to be told apart, and predicted successor keys stay comparable)
			g.op = nil
			s.cur = g
			return g
		}
		ts := s.enabled()
		if s.status != StatusRunning {
			return nil
		}
		if len(ts) == 0 {
			s.status = StatusDone
			for _, g := range s.gs {
				if !g.done && g.class == ClassClient {
					s.status = StatusDeadlock
				}
			}
			return nil
		}
		idx := 0
		if len(ts) == 1 && s.ch.single(s, &ts[0]) {
			s.status = StatusPruned
			return nil
		}
		if len(ts) > 1 {
			var st Status
			idx, st = s.ch.choose(s, ts)
			if idx < 0 {
				s.status = st
				return nil
			}
		}
		t := &ts[idx]
		keep := s.pcur != nil && t.involves(s.pcur)
		var predicted H
		var predOK bool
		if checkSucc {
			predicted, predOK = s.succKey(t, true)
		}
		g := s.apply(t)
		if g != nil {
			s.cur = g
			if !keep {
				s.pcur = g
			}
		}
		if predOK {
			if actual := s.key(true).fold(lookaheadTag); actual != predicted {
				s.fail(StatusHarnessError, "internal: successor-key prediction mismatch at step %d", s.nsteps)
				return nil
			}
		}
		if g != nil {
			return g
		}
	}
}

func (s *sched) invisible() *G {
	if s.npending == 0 {
		return nil
	}
	for _, g := range s.gs {
		if g.op != nil && (g.op.kind == kStart || g.op.kind == kResume) {
			s.npending--
			return g
		}
	}
	s.npending = 0
	return nil
}

func (s *sched) recvReady(c *selCase) (buffered, closed bool) {
	cm := c.cm
	if len(cm.buf) > 0 {
		return true, false
	}
	if !cm.closed && cm.poll != nil {
		cl, got := cm.poll()
		if got {
			s.fail(StatusHarnessError, "a value was delivered on foreign channel %s by un-instrumented code", chName(cm))
			return false, false
		}
		if cl {
			cm.closed = true
			cm.closeStamp = H{0xf0e1, 0xd2c3}
		}
	}
	return false, cm.closed
}

func (s *sched) enabledOf(g *G, ts []trans) []trans {
	o := g.op
	switch o.kind {
	case kStart, kResume:
		ts = append(ts, trans{kind: tOp, g: g})
	case kSimple:
		if o.enabled == nil || o.enabled() {
			ts = append(ts, trans{kind: tOp, g: g})
		}
	case kSelect:
		definite := false
		for i := range o.cases {
			c := &o.cases[i]
			cm := c.cm
			if cm == nil {
				continue
			}
			if c.send {
				if cm.closed {
					ts = append(ts, trans{kind: tCase, g: g, ci: i})
					definite = true
				} else if len(cm.buf) < cm.cap {
					ts = append(ts, trans{kind: tCase, g: g, ci: i})
					definite = true
				} else if cm.cap == 0 {
					for _, r := range s.gs {
						if r == g || r.op == nil || r.op.kind != kSelect {
							continue
						}
						if r == s.pcur && g != s.pcur {
							continue // listed under cur
						}
						for j := range r.op.cases {
							rc := &r.op.cases[j]
							if rc.cm == cm && !rc.send {
								ts = append(ts, trans{kind: tRendezvous, g: g, ci: i, partner: r, pj: j})
							}
						}
					}
				}
			} else {
				buffered, closed := s.recvReady(c)
				if buffered || closed {
					ts = append(ts, trans{kind: tCase, g: g, ci: i})
					definite = true
				} else if cm.cap == 0 && g == s.pcur {
					for _, sd := range s.gs {
						if sd == g || sd.op == nil || sd.op.kind != kSelect {
							continue
						}
						for j := range sd.op.cases {
							sc := &sd.op.cases[j]
							if sc.cm == cm && sc.send {
								ts = append(ts, trans{kind: tRendezvous, g: sd, ci: j, partner: g, pj: i})
							}
						}
					}
				}
			}
		}
		// default is possible whenever no case is *definitely* ready: a pending partner on an
		// unbuffered channel may or may not have parked yet in a real execution.
		if o.hasDefault && !definite {
			ts = append(ts, trans{kind: tDefault, g: g, ci: -1})
		}
	}
	return ts
}

func (t *trans) involves(g *G) bool { return g != nil && (t.g == g || t.partner == g) }

func (t *trans) isEnv() bool {
	if t.kind == tTimer {
		return true
	}
	if t.g.class == ClassEnv {
		return true
	}
	return t.partner != nil && t.partner.class == ClassEnv
}

func (s *sched) enabled() []trans {
	ts := s.tbuf[:0]
	if c := s.chooser; c != nil {
		for k := 0; k < c.op.n; k++ {
			ts = append(ts, trans{kind: tChoose, g: c, ci: k})
		}
		s.tbuf = ts
		return ts
	}
	cur := s.pcur
	if cur != nil && cur.op != nil {
		ts = s.enabledOf(cur, ts)
	}
	for _, g := range s.gs {
		if g != cur && g.op != nil {
			ts = s.enabledOf(g, ts)
		}
	}
	if s.ntimers > 0 {
		var min time.Duration = -1
		if s.tmrOrder == TimerByDeadline {
			for _, t := range s.timers {
				if t.armed && (min < 0 || t.deadline < min) {
					min = t.deadline
				}
			}
		}
		for _, t := range s.timers {
			if !t.armed {
				continue
			}
			if min >= 0 && t.deadline != min {
				continue
			}
			if t.fn == nil && len(t.cm.buf) >= t.cm.cap {
				continue // a tick into a full channel is dropped: no state change
			}
			if s.lazyTmr && t.fn == nil && !s.timerObserved(t) {
				continue
			}
			ts = append(ts, trans{kind: tTimer, tm: t})
		}
	}
	s.tbuf = ts
	if len(ts) <= 1 {
		return ts
	}
	curEnabled, sysEnabled := false, false
	for i := range ts {
		t := &ts[i]
		if !t.isEnv() {
			sysEnabled = true
		}
		// (only a NON-environment transition of cur makes the others preemptions: if cur's sole enabled
		// transition is a rendezvous with a parked environment goroutine, that one is an early
		// injection, and charging the rest as preemptions would leave no zero-cost alternative)
		if cur != nil && cur.class != ClassEnv && t.involves(cur) && !t.isEnv() {
			curEnabled = true
		}
	}
	for i := range ts {
		t := &ts[i]
		if t.isEnv() {
			// one unit per switch *to* the environment while the system is not quiescent;
			// an environment goroutine that keeps the token continues for free
			// (except at an EnvQuiesce point, which is charged like a switch)
			if sysEnabled && !(cur != nil && cur.class == ClassEnv && t.involves(cur) && !(t.kind == tOp && t.g.op.strict)) {
				t.de = 1
			}
		} else if curEnabled && !t.involves(cur) {
			t.dp = 1
		}
	}
	if s.delay && !curEnabled && sysEnabled {
		// delay bounding: cur cannot continue; the first enabled non-environment goroutine (ts is in
		// creation order) is the canonical successor, every other goroutine is a deviation
		var canon *G
		for i := range ts {
			if t := &ts[i]; !t.isEnv() {
				if canon == nil {
					canon = t.g
				}
				if !t.involves(canon) {
					t.dp = 1
				}
			}
		}
	}
	return ts
}

// timerObserved: some goroutine is parked on a receive that includes the timer's channel, or is
// about to Stop/Reset it (Options.LazyTimers).
func (s *sched) timerObserved(t *Timer) bool {
	for _, g := range s.gs {
		o := g.op
		if o == nil {
			continue
		}
		switch o.kind {
		case kSelect:
			for i := range o.cases {
				if c := &o.cases[i]; c.cm == t.cm && !c.send {
					return true
				}
			}
		case kSimple:
			if o.obj == &t.obj {
				return true
			}
		}
	}
	return false
}

func (s *sched) applyCase(g *G, ci int) {
	c := &g.op.cases[ci]
	cm := c.cm
	g.selIdx = ci
	if c.send {
		if cm.closed {
			g.panicMsg = "send on closed channel"
			s.setH(g, g.h.fold2(cPanicSend, uint64(ci)))
			return
		}
		h := g.h.fold2(cSendBuf, uint64(ci)).foldH(cm.sendH)
		s.setH(g, h)
		cm.sendH = cm.sendH.foldH(h)
		cm.buf = append(cm.buf, item{v: c.val, stamp: h})
		cm.nsend++
		if s.tap != nil {
			s.tap(TapEvent{G: g.id, Send: true, Chan: cm.id, Elem: cm.elem, Val: c.val})
		}
		return
	}
	if len(cm.buf) > 0 {
		it := cm.buf[0]
		cm.buf[0] = item{}
		cm.buf = cm.buf[1:]
		cm.nrecv++
		g.rv, g.rok = it.v, true
		s.setH(g, g.h.fold2(cRecvBuf, uint64(ci)).foldH(it.stamp))
		if s.tap != nil {
			s.tap(TapEvent{G: g.id, Chan: cm.id, Elem: cm.elem, Val: it.v})
		}
		return
	}
	// closed
	g.rv, g.rok = nil, false
	s.setH(g, g.h.fold2(cRecvClosed, uint64(ci)).foldH(cm.closeStamp))
}

func (s *sched) apply(t *trans) *G {
	switch t.kind {
	case tTimer:
		t.tm.fire(s)
		return nil
	case tChoose:
		g := t.g
		g.chooseRes = t.ci
		g.op = nil
		s.chooser = nil
		s.setH(g, g.h.fold2(cChoose, uint64(t.ci)))
		if s.tracing {
			s.trace = append(s.trace, fmt.Sprintf("%s choose %d", g.name(), t.ci))
		}
		return g
	case tOp:
		g := t.g
		o := g.op
		if s.tracing && o.kind != kResume {
			s.trace = append(s.trace, g.name()+" "+o.desc)
		}
		if o.obj == nil || o.fold == foldNone || o.fold == foldRelease || o.fold == foldCommute {
			s.setH(g, g.h.fold(cOp))
		}
		if o.obj != nil {
			switch o.fold {
			case foldAcquire:
				s.setH(g, g.h.fold(cOp).foldH(o.obj.h))
			case foldRelease:
				o.obj.h = o.obj.h.foldH(g.h)
			case foldChain:
				s.setH(g, g.h.fold(cOp).foldH(o.obj.h))
				o.obj.h = o.obj.h.foldH(g.h)
			case foldCommute:
				o.obj.h.add(g.h.contrib())
			}
		}
		if o.apply != nil {
			o.apply()
		}
		g.op = nil
		return g
	case tDefault:
		g := t.g
		g.selIdx = -1
		s.setH(g, g.h.fold(cDefault))
		if s.tracing {
			s.trace = append(s.trace, g.name()+" "+s.descSelect(g.op)+" -> default")
		}
		g.op = nil
		return g
	case tCase:
		g := t.g
		if s.tracing {
			s.trace = append(s.trace, fmt.Sprintf("%s %s -> case %d", g.name(), s.descSelect(g.op), t.ci))
		}
		s.applyCase(g, t.ci)
		g.op = nil
		return g
	case tRendezvous:
		sd, r := t.g, t.partner
		sc := &sd.op.cases[t.ci]
		if s.tracing {
			s.trace = append(s.trace, fmt.Sprintf("%s %s case %d => %s %s case %d", sd.name(), s.descSelect(sd.op), t.ci, r.name(), s.descSelect(r.op), t.pj))
		}
		hs := sd.h
		sd.selIdx = t.ci
		r.selIdx = t.pj
		r.rv, r.rok = sc.val, true
		sc.cm.nrecv++
		sc.cm.nsend++
		s.setH(sd, hs.fold2(cSend, uint64(t.ci)))
		s.setH(r, r.h.fold2(cRecv, uint64(t.pj)).foldH(hs))
		sd.op = nil
		r.op = resumeOp
		s.npending++
		if s.tap != nil {
			s.tap(TapEvent{G: sd.id, Send: true, Chan: sc.cm.id, Elem: sc.cm.elem, Val: sc.val})
			s.tap(TapEvent{G: r.id, Chan: sc.cm.id, Elem: sc.cm.elem, Val: sc.val})
		}
		return sd
	}
	panic("vs: bad transition")
}

func (s *sched) descSelect(o *op) string {
	var b strings.Builder
	if len(o.cases) == 1 && !o.hasDefault {
		c := o.cases[0]
		if c.send {
			b.WriteString("send ")
		} else {
			b.WriteString("recv ")
		}
		b.WriteString(chName(c.cm))
		return b.String()
	}
	b.WriteString("select[")
	for i, c := range o.cases {
		if i > 0 {
			b.WriteString(" ")
		}
		if c.send {
			b.WriteString("!")
		} else {
			b.WriteString("?")
		}
		b.WriteString(chName(c.cm))
	}
	if o.hasDefault {
		b.WriteString(" default")
	}
	b.WriteString("]")
	return b.String()
}

func chName(cm *chanModel) string {
	if cm == nil {
		return "nil"
	}
	return "ch" + strconv.Itoa(cm.seq)
}

// GInfo describes a goroutine at the end of an execution.
type GInfo struct {
	ID      string
	Label   string
	Class   string
	Done    bool
	Pending string // pending operation if not done
}

func (s *sched) ginfo() []GInfo {
	out := make([]GInfo, 0, len(s.gs))
	for _, g := range s.gs {
		gi := GInfo{ID: g.id, Label: g.label, Class: g.class.String(), Done: g.done}
		if !g.done && g.op != nil {
			if g.op.kind == kSelect {
				gi.Pending = s.descSelect(g.op)
			} else {
				gi.Pending = g.op.desc
			}
		}
		out = append(out, gi)
	}
	return out
}

// checkSucc (VS_CHECK_SUCC=1) verifies every predicted successor key against the key actually
// reached; used by the test-suite and for debugging the explorer's look-ahead pruning.
var checkSucc = os.Getenv("VS_CHECK_SUCC") != ""

// stuckTimeout is a machinery guard, not an oracle: a managed goroutine that does not reach
// its next hooked operation within this time is performing a real blocking operation
// (an un-instrumented channel op or lock), which the scheduler cannot see.
var stuckTimeout = 60 * time.Second

// run performs one controlled execution of body.
func (s *sched) run(body func()) {
	if active != nil {
		panic("vs: nested executions")
	}
	active = s
	s.chans = make(map[unsafe.Pointer]*chanModel, 64)
	s.doneCh = make(chan struct{}, 1)
	s.status = StatusRunning
	s.newG(nil, body, ClassClient)
	next := s.step()
	if next != nil {
		next.wake <- struct{}{}
		tm := time.NewTimer(stuckTimeout)
		select {
		case <-s.doneCh:
			tm.Stop()
		case <-tm.C:
			cur := "?"
			if s.cur != nil {
				cur = s.cur.name()
			}
			// cannot clean up: the goroutine is stuck in real code
			panic(fmt.Sprintf("vs: goroutine %s did not reach a hooked operation within %v (un-instrumented blocking operation?)", cur, stuckTimeout))
		}
	}
	if s.finish != nil {
		s.finish()
	}
	// poison-mode cleanup: every parked goroutine unwinds through runtime.Goexit
	s.poison = true
	// (one at a time, so that deferred user code never runs concurrently)
	for i := 0; i < len(s.gs); i++ {
		g := s.gs[i]
		select {
		case g.wake <- struct{}{}:
		default:
		}
		<-g.exited
	}
	active = nil
}
