package vs

// Harness-side observations that are NOT scheduling points (added for the C14 harness; both are
// additive and change nothing for existing callers).

// Quiescent reports whether the system is quiescent right now: no goroutine other than the caller
// has a pending first/continuation block and no non-environment transition is enabled (armed timers
// and other environment goroutines do not count). It is meant for an environment goroutine that has
// to tell "my event lands while the system is still working" (early injection, or several events
// fired back to back) from "the system had handled everything before" - e.g. to decide whether an
// end-of-run obligation is due. It is not a scheduling point; the answer is a function of the
// global state, and it is folded into the caller's history.
func Quiescent() bool {
	s := active
	if s == nil {
		return false
	}
	q := true
	var ts []trans
	for _, g := range s.gs {
		if g == s.cur || g.op == nil {
			continue
		}
		if g.op.kind == kStart || g.op.kind == kResume {
			if g.class != ClassEnv {
				q = false
				break
			}
			continue
		}
		ts = s.enabledOf(g, ts[:0])
		for i := range ts {
			if !ts[i].isEnv() {
				q = false
				break
			}
		}
		if !q {
			break
		}
	}
	g := s.cur
	s.setH(g, g.h.fold2(cNote, b2u(q)))
	return q
}

// RecvCountNow is RecvCount without the scheduling point: the number of values received from ch so
// far, read at once and folded into the caller's history. Only meaningful (and only deterministic
// under the eager execution of first blocks) when the caller is causally after every receive it may
// observe - the intended use is the first block of a goroutine spawned by the channel's only
// receiver ("had my spawner already accepted a request on this channel when it started me?").
func RecvCountNow[T any](ch <-chan T) int {
	s := active
	if s == nil {
		return 0
	}
	cm := modelR(s, ch)
	if cm == nil {
		return 0
	}
	n := cm.nrecv
	if s.status == StatusRunning {
		g := s.cur
		s.setH(g, g.h.fold2(cNote, uint64(n)))
	}
	return n
}
