package vsync

import (
	"fmt"
	"testing"
	"time"

	"verif.local/gosched/vs"
	"verif.local/gosched/vtime"
)

func run(t *testing.T, body func(log func(string))) (*vs.Stats, map[string]int) {
	out := map[string]int{}
	fac := func() vs.Exec {
		var lines []string
		return vs.Exec{
			Body: func() { body(func(s string) { lines = append(lines, s) }) },
			Check: func(r *vs.Result) (string, []string) {
				s := r.Status.String() + ":" + fmt.Sprint(lines)
				out[s]++
				return s, nil
			},
		}
	}
	st := vs.Explore(fac, vs.Options{Prune: true, MaxViolations: 1 << 30, Samples: -1})
	if len(st.Errors) > 0 {
		t.Fatalf("machinery: %v", st.Errors)
	}
	return st, out
}

func TestMutexCounter(t *testing.T) {
	_, out := run(t, func(log func(string)) {
		var mu Mutex
		var wg WaitGroup
		n := 0
		for i := 0; i < 3; i++ {
			wg.Add(1)
			vs.Go(func() {
				defer wg.Done()
				mu.Lock()
				v := n
				vs.Yield() // a preemption point inside the critical section
				n = v + 1
				mu.Unlock()
			})
		}
		vs.Go(func() { wg.Wait(); log(fmt.Sprint(n)) })
	})
	if len(out) != 1 || out["done:[3]"] == 0 {
		t.Errorf("outcomes %v", out)
	}
}

func TestLostUpdateWithoutMutex(t *testing.T) {
	_, out := run(t, func(log func(string)) {
		var wg WaitGroup
		n := 0
		wg.Add(2)
		for i := 0; i < 2; i++ {
			// NB: the first block of a goroutine is taken eagerly (it must not read memory that other
			// goroutines write); the racy read therefore comes after a scheduling point.
			// and the value read is folded into the history with vs.Note (pruning proviso).
			vs.Go(func() {
				defer wg.Done()
				vs.Yield()
				v := n
				vs.Note(v)
				vs.Yield()
				n = v + 1
			})
		}
		vs.Go(func() { wg.Wait(); log(fmt.Sprint(n)) })
	})
	if out["done:[1]"] == 0 || out["done:[2]"] == 0 {
		t.Errorf("the lost update was not found: %v", out)
	}
}

func TestLockOrderDeadlock(t *testing.T) {
	st, _ := run(t, func(log func(string)) {
		var a, b Mutex
		vs.Go(func() { a.Lock(); b.Lock(); b.Unlock(); a.Unlock() })
		vs.Go(func() { b.Lock(); a.Lock(); a.Unlock(); b.Unlock() })
	})
	if st.Deadlocks == 0 || st.Executions == st.Deadlocks {
		t.Errorf("executions=%d deadlocks=%d", st.Executions, st.Deadlocks)
	}
}

func TestOnceAndRWMutex(t *testing.T) {
	_, out := run(t, func(log func(string)) {
		var once Once
		var rw RWMutex
		var wg WaitGroup
		inits, shared := 0, 0
		wg.Add(3)
		for i := 0; i < 2; i++ {
			vs.Go(func() {
				defer wg.Done()
				once.Do(func() { vs.Yield(); inits++ })
				rw.RLock()
				_ = shared
				rw.RUnlock()
			})
		}
		vs.Go(func() { defer wg.Done(); rw.Lock(); shared++; rw.Unlock() })
		vs.Go(func() { wg.Wait(); log(fmt.Sprintf("inits=%d shared=%d", inits, shared)) })
	})
	if len(out) != 1 || out["done:[inits=1 shared=1]"] == 0 {
		t.Errorf("outcomes %v", out)
	}
}

func TestVtime(t *testing.T) {
	_, out := run(t, func(log func(string)) {
		start := vtime.Now()
		tm := vtime.NewTimer(5 * time.Minute)
		stopped := make(chan bool, 1)
		vs.Go(func() { vs.Send(stopped, tm.Stop()) })
		vs.Go(func() {
			rt, rs := vs.RecvCase(tm.C), vs.RecvCase(stopped)
			switch vs.Select(false, rt, rs) {
			case 0:
				log(fmt.Sprintf("fired after %v", vtime.Since(start)))
			case 1:
				log(fmt.Sprintf("stop=%v", rs.V()))
			}
		})
		vtime.Sleep(time.Second)
		log("slept")
	})
	want := []string{
		"done:[slept fired after 5m0s]", "done:[fired after 5m0s slept]", // timer first (then Stop reports false)
		"done:[slept stop=true]", "done:[stop=true slept]",
		"done:[slept stop=false]", "done:[stop=false slept]",
	}
	for _, w := range want {
		if out[w] == 0 {
			t.Errorf("missing outcome %q in %v", w, out)
		}
	}
}
