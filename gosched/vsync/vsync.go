// Package vsync replaces package sync in instrumented files. Under a controlled execution the
// primitives are scheduler operations (every Lock/Unlock/Add/Done/Wait is a scheduling point);
// otherwise they fall through to the real ones.
package vsync

import (
	"sync"

	"verif.local/gosched/vs"
)

type (
	Locker = sync.Locker
	Map    = sync.Map
	Pool   = sync.Pool
)

// Mutex mirrors sync.Mutex.
type Mutex struct {
	real   sync.Mutex
	locked bool
	obj    vs.Obj
}

func (m *Mutex) Lock() {
	if !vs.Active() {
		m.real.Lock()
		return
	}
	vs.Op("Mutex.Lock", &m.obj, vs.FoldAcquire, func() bool { return !m.locked }, func() { m.locked = true })
}

func (m *Mutex) TryLock() bool {
	if !vs.Active() {
		return m.real.TryLock()
	}
	got := false
	vs.Op("Mutex.TryLock", &m.obj, vs.FoldAcquire, nil, func() {
		if !m.locked {
			m.locked, got = true, true
		}
	})
	vs.Note(got)
	return got
}

func (m *Mutex) Unlock() {
	if !vs.Active() {
		m.real.Unlock()
		return
	}
	bad := false
	vs.Op("Mutex.Unlock", &m.obj, vs.FoldRelease, nil, func() {
		if !m.locked {
			bad = true
		}
		m.locked = false
	})
	if bad {
		panic("sync: unlock of unlocked mutex")
	}
}

// RWMutex mirrors sync.RWMutex (no writer preference: a sound over-approximation).
type RWMutex struct {
	real    sync.RWMutex
	writer  bool
	readers int
	w, r    vs.Obj
}

func (m *RWMutex) Lock() {
	if !vs.Active() {
		m.real.Lock()
		return
	}
	vs.Op("RWMutex.Lock", &m.w, vs.FoldAcquire, func() bool { return !m.writer && m.readers == 0 }, func() { m.writer = true })
	vs.Op("RWMutex.Lock/readers", &m.r, vs.FoldAcquire, nil, nil)
}

func (m *RWMutex) Unlock() {
	if !vs.Active() {
		m.real.Unlock()
		return
	}
	bad := false
	vs.Op("RWMutex.Unlock", &m.w, vs.FoldRelease, nil, func() {
		bad = !m.writer
		m.writer = false
	})
	if bad {
		panic("sync: Unlock of unlocked RWMutex")
	}
}

func (m *RWMutex) RLock() {
	if !vs.Active() {
		m.real.RLock()
		return
	}
	vs.Op("RWMutex.RLock", &m.w, vs.FoldAcquire, func() bool { return !m.writer }, func() { m.readers++ })
}

func (m *RWMutex) RUnlock() {
	if !vs.Active() {
		m.real.RUnlock()
		return
	}
	bad := false
	vs.Op("RWMutex.RUnlock", &m.r, vs.FoldCommute, nil, func() {
		bad = m.readers <= 0
		m.readers--
	})
	if bad {
		panic("sync: RUnlock of unlocked RWMutex")
	}
}

func (m *RWMutex) RLocker() Locker { return (*rlocker)(m) }

type rlocker RWMutex

func (r *rlocker) Lock()   { (*RWMutex)(r).RLock() }
func (r *rlocker) Unlock() { (*RWMutex)(r).RUnlock() }

// WaitGroup mirrors sync.WaitGroup.
type WaitGroup struct {
	real sync.WaitGroup
	n    int
	obj  vs.Obj
}

func (wg *WaitGroup) Add(delta int) {
	if !vs.Active() {
		wg.real.Add(delta)
		return
	}
	bad := false
	vs.Op("WaitGroup.Add", &wg.obj, vs.FoldCommute, nil, func() {
		wg.n += delta
		bad = wg.n < 0
	})
	if bad {
		panic("sync: negative WaitGroup counter")
	}
}

func (wg *WaitGroup) Done() { wg.Add(-1) }

func (wg *WaitGroup) Wait() {
	if !vs.Active() {
		wg.real.Wait()
		return
	}
	vs.Op("WaitGroup.Wait", &wg.obj, vs.FoldAcquire, func() bool { return wg.n == 0 }, nil)
}

// Once mirrors sync.Once.
type Once struct {
	real    sync.Once
	done    bool
	running bool
	obj     vs.Obj
}

func (o *Once) Do(f func()) {
	if !vs.Active() {
		o.real.Do(f)
		return
	}
	first := false
	vs.Op("Once.Do", &o.obj, vs.FoldAcquire, func() bool { return !o.running }, func() {
		if !o.done {
			o.running, first = true, true
		}
	})
	if !first {
		return
	}
	defer vs.Op("Once.done", &o.obj, vs.FoldRelease, nil, func() { o.running, o.done = false, true })
	f()
}
