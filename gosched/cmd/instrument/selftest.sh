#!/bin/bash
# Self-test of the instrumenter: instruments internal/sample (every construct of the rewrite table),
# builds internal/samplerun through the overlay and checks that (a) it compiles, (b) every function's
# free-running result is one of the outcomes found under the controlled scheduler, (c) no deadlock/panic.
set -eu
here="$(cd "$(dirname "$0")" && pwd)"
. "$here/../../../bin/env.sh"
G="$VERIF_ROOT/gosched"; B="$VERIF_ROOT/build/gosched/selftest"
rm -rf "$B"; mkdir -p "$B"
(cd "$G" && go build -o "$B/instrument" ./cmd/instrument)
"$B/instrument" -out "$B" -moddir "$G" "$G/internal/sample/sample.go" >/dev/null
(cd "$G" && go build -overlay "$B/overlay.json" -o "$B/samplerun" ./internal/samplerun)
"$B/samplerun"
echo "instrumenter self-test ok"
