// Command instrument is the source-to-source rewriter of the gosched engine (DESIGN §3.1).
//
//	instrument -out DIR [-overlay FILE] [-moddir DIR] [-tags T] [-subst REAL=REPL]... [-add DST=SRC]... FILE...
//
// Every FILE (absolute path; a file of /repo read from the current working tree, or a file in the
// module cache) is type-checked together with the rest of its package, rewritten so that every
// goroutine / channel / select / timer / sync operation goes through the shim
// verif.local/gosched/{vs,vtime,vsync,vrand}, and written below DIR. FILE (or -overlay) receives
// a `go build -overlay` JSON that replaces the real paths by the rewritten copies; an existing
// overlay file is merged. -subst reads REPL instead of REAL (mutants) but keeps REAL as the
// overlay key. -add adds (or replaces) an arbitrary file DST by SRC through the overlay, without
// rewriting it (in-package harness files).
//
// Exit status: 0 ok; 2 on any construct the rewriter does not recognise, type error, I/O error.
package main

import (
	"bytes"
	"encoding/json"
	"flag"
	"fmt"
	"go/ast"
	"go/format"
	"go/importer"
	"go/parser"
	"go/token"
	"go/types"
	"io"
	"os"
	"os/exec"
	"path/filepath"
	"sort"
	"strings"
)

type multi []string

func (m *multi) String() string     { return strings.Join(*m, ",") }
func (m *multi) Set(s string) error { *m = append(*m, s); return nil }

func fatalf(format string, args ...interface{}) {
	fmt.Fprintf(os.Stderr, "instrument: "+format+"\n", args...)
	os.Exit(2)
}

type listPkg struct {
	ImportPath string
	Dir        string
	Export     string
	GoFiles    []string
	CgoFiles   []string
	ImportMap  map[string]string
	Error      *struct{ Err string }
}

func main() {
	var (
		outDir  = flag.String("out", "", "directory for rewritten files")
		overlay = flag.String("overlay", "", "overlay JSON to write/merge (default OUT/overlay.json)")
		modDir  = flag.String("moddir", ".", "directory of the main module in which `go list` is run")
		tags    = flag.String("tags", "", "build tags for go list")
		audit   = flag.Bool("audit", false, "report un-instrumented files of the touched packages that contain goroutine/channel constructs")
		substs  multi
		adds    multi
	)
	flag.Var(&substs, "subst", "REAL=REPLACEMENT: read REPLACEMENT instead of REAL")
	flag.Var(&adds, "add", "DST=SRC: add SRC to the overlay as DST, verbatim")
	flag.Parse()
	if *outDir == "" {
		fatalf("-out is required")
	}
	if abs, err := filepath.Abs(*outDir); err == nil {
		*outDir = abs
	}
	if *overlay == "" {
		*overlay = filepath.Join(*outDir, "overlay.json")
	}
	subst := map[string]string{}
	for _, s := range substs {
		kv := strings.SplitN(s, "=", 2)
		if len(kv) != 2 {
			fatalf("bad -subst %q", s)
		}
		subst[filepath.Clean(kv[0])] = kv[1]
	}

	// group target files by package directory
	byDir := map[string][]string{}
	var dirs []string
	for _, f := range flag.Args() {
		f = filepath.Clean(f)
		if !filepath.IsAbs(f) {
			fatalf("file %s: absolute path required", f)
		}
		if _, err := os.Stat(f); err != nil {
			fatalf("%v", err)
		}
		d := filepath.Dir(f)
		if _, ok := byDir[d]; !ok {
			dirs = append(dirs, d)
		}
		byDir[d] = append(byDir[d], f)
	}
	for k := range subst {
		found := false
		for _, f := range flag.Args() {
			if filepath.Clean(f) == k {
				found = true
			}
		}
		if !found {
			fatalf("-subst %s: not among the files to instrument", k)
		}
	}

	replace := map[string]string{}
	if len(dirs) > 0 {
		importPaths := map[string]string{}
		var paths []string
		for _, d := range dirs {
			ip, err := importPathOf(d)
			if err != nil {
				fatalf("%v", err)
			}
			importPaths[d] = ip
			paths = append(paths, ip)
		}
		pkgs := goList(*modDir, *tags, paths)
		fset := token.NewFileSet()
		for _, d := range dirs {
			lp := pkgs[importPaths[d]]
			if lp == nil {
				fatalf("go list did not return package %s", importPaths[d])
			}
			if len(lp.CgoFiles) > 0 {
				fatalf("package %s uses cgo: not supported", lp.ImportPath)
			}
			out := instrumentPackage(fset, lp, pkgs, byDir[d], subst, *audit)
			for real, src := range out {
				dst := filepath.Join(*outDir, "src", strings.ReplaceAll(strings.TrimPrefix(real, "/"), "@", "_at_"))
				if err := os.MkdirAll(filepath.Dir(dst), 0o755); err != nil {
					fatalf("%v", err)
				}
				if err := os.WriteFile(dst, src, 0o644); err != nil {
					fatalf("%v", err)
				}
				replace[real] = dst
			}
		}
	}
	for _, a := range adds {
		kv := strings.SplitN(a, "=", 2)
		if len(kv) != 2 {
			fatalf("bad -add %q", a)
		}
		if _, err := os.Stat(kv[1]); err != nil {
			fatalf("%v", err)
		}
		abs, _ := filepath.Abs(kv[1])
		replace[filepath.Clean(kv[0])] = abs
	}

	// merge with an existing overlay
	ov := struct{ Replace map[string]string }{Replace: map[string]string{}}
	if raw, err := os.ReadFile(*overlay); err == nil {
		if err := json.Unmarshal(raw, &ov); err != nil {
			fatalf("existing overlay %s: %v", *overlay, err)
		}
		if ov.Replace == nil {
			ov.Replace = map[string]string{}
		}
	}
	for k, v := range replace {
		ov.Replace[k] = v
	}
	raw, _ := json.MarshalIndent(ov, "", " ")
	if err := os.MkdirAll(filepath.Dir(*overlay), 0o755); err != nil {
		fatalf("%v", err)
	}
	if err := os.WriteFile(*overlay, append(raw, '\n'), 0o644); err != nil {
		fatalf("%v", err)
	}
	var keys []string
	for k := range replace {
		keys = append(keys, k)
	}
	sort.Strings(keys)
	for _, k := range keys {
		fmt.Printf("instrument: %s -> %s\n", k, replace[k])
	}
}

// importPathOf derives the import path of a package directory from the enclosing go.mod, or,
// for a module-cache directory without go.mod, from its path below GOMODCACHE.
func importPathOf(dir string) (string, error) {
	for d := dir; ; d = filepath.Dir(d) {
		raw, err := os.ReadFile(filepath.Join(d, "go.mod"))
		if err == nil {
			for _, line := range strings.Split(string(raw), "\n") {
				line = strings.TrimSpace(line)
				if strings.HasPrefix(line, "module") {
					mod := strings.Trim(strings.TrimSpace(strings.TrimPrefix(line, "module")), `"`)
					rel, _ := filepath.Rel(d, dir)
					if rel == "." {
						return mod, nil
					}
					return mod + "/" + filepath.ToSlash(rel), nil
				}
			}
			return "", fmt.Errorf("%s/go.mod: no module line", d)
		}
		if filepath.Base(d) != "" && strings.Contains(filepath.Base(d), "@") {
			// module root in the module cache without go.mod (e.g. retry-go@v2.7.0+incompatible)
			out, err := exec.Command("go", "env", "GOMODCACHE").Output()
			if err != nil {
				return "", err
			}
			cache := strings.TrimSpace(string(out))
			rel, err := filepath.Rel(cache, d)
			if err != nil || strings.HasPrefix(rel, "..") {
				return "", fmt.Errorf("%s: not below GOMODCACHE", d)
			}
			rel = rel[:strings.LastIndex(rel, "@")]
			var b strings.Builder
			for i := 0; i < len(rel); i++ { // undo the case escaping of the module cache
				if rel[i] == '!' && i+1 < len(rel) {
					i++
					b.WriteString(strings.ToUpper(string(rel[i])))
				} else {
					b.WriteByte(rel[i])
				}
			}
			sub, _ := filepath.Rel(d, dir)
			if sub == "." {
				return filepath.ToSlash(b.String()), nil
			}
			return filepath.ToSlash(b.String()) + "/" + filepath.ToSlash(sub), nil
		}
		if d == "/" || d == "." {
			return "", fmt.Errorf("%s: no go.mod found", dir)
		}
	}
}

func goList(modDir, tags string, paths []string) map[string]*listPkg {
	args := []string{"list", "-e", "-deps", "-export", "-json=ImportPath,Dir,Export,GoFiles,CgoFiles,ImportMap,Error"}
	if tags != "" {
		args = append(args, "-tags", tags)
	}
	args = append(args, paths...)
	cmd := exec.Command("go", args...)
	cmd.Dir = modDir
	var stderr bytes.Buffer
	cmd.Stderr = &stderr
	out, err := cmd.Output()
	if err != nil {
		fatalf("go list failed: %v\n%s", err, stderr.String())
	}
	pkgs := map[string]*listPkg{}
	dec := json.NewDecoder(bytes.NewReader(out))
	for {
		var p listPkg
		if err := dec.Decode(&p); err == io.EOF {
			break
		} else if err != nil {
			fatalf("go list output: %v", err)
		}
		pp := p
		pkgs[p.ImportPath] = &pp
	}
	return pkgs
}

func instrumentPackage(fset *token.FileSet, lp *listPkg, pkgs map[string]*listPkg, targets []string, subst map[string]string, audit bool) map[string][]byte {
	if lp.Error != nil {
		fatalf("package %s: %s", lp.ImportPath, lp.Error.Err)
	}
	isTarget := map[string]bool{}
	for _, t := range targets {
		isTarget[t] = true
	}
	var files []*ast.File
	fileOf := map[string]*ast.File{}
	for _, name := range lp.GoFiles {
		path := filepath.Join(lp.Dir, name)
		src := path
		if s, ok := subst[path]; ok {
			src = s
		}
		raw, err := os.ReadFile(src)
		if err != nil {
			fatalf("%v", err)
		}
		f, err := parser.ParseFile(fset, path, raw, parser.ParseComments|parser.SkipObjectResolution)
		if err != nil {
			fatalf("parse %s: %v", src, err)
		}
		files = append(files, f)
		fileOf[path] = f
	}
	for _, t := range targets {
		if fileOf[t] == nil {
			fatalf("%s is not a Go file of package %s under the current build constraints (files: %v)", t, lp.ImportPath, lp.GoFiles)
		}
	}
	imp := importer.ForCompiler(fset, "gc", func(path string) (io.ReadCloser, error) {
		if m, ok := lp.ImportMap[path]; ok {
			path = m
		}
		p := pkgs[path]
		if p == nil || p.Export == "" {
			return nil, fmt.Errorf("no export data for %s", path)
		}
		return os.Open(p.Export)
	})
	info := &types.Info{
		Types: map[ast.Expr]types.TypeAndValue{},
		Uses:  map[*ast.Ident]types.Object{},
		Defs:  map[*ast.Ident]types.Object{},
	}
	var terrs []string
	conf := types.Config{Importer: imp, Error: func(err error) { terrs = append(terrs, err.Error()) }}
	conf.Check(lp.ImportPath, fset, files, info)
	if len(terrs) > 0 {
		if len(terrs) > 10 {
			terrs = terrs[:10]
		}
		fatalf("type errors in %s:\n  %s", lp.ImportPath, strings.Join(terrs, "\n  "))
	}
	out := map[string][]byte{}
	for _, t := range targets {
		r := &rewriter{fset: fset, info: info, file: fileOf[t], path: t}
		out[t] = r.run()
	}
	if audit {
		for path, f := range fileOf {
			if isTarget[path] {
				continue
			}
			n := countConstructs(f)
			if n > 0 {
				fmt.Fprintf(os.Stderr, "instrument: AUDIT %s: %d goroutine/channel constructs in a file that is NOT instrumented\n", path, n)
			}
		}
	}
	return out
}

func countConstructs(f *ast.File) int {
	n := 0
	ast.Inspect(f, func(x ast.Node) bool {
		switch x := x.(type) {
		case *ast.GoStmt, *ast.SelectStmt, *ast.SendStmt:
			n++
		case *ast.UnaryExpr:
			if x.Op == token.ARROW {
				n++
			}
		}
		return true
	})
	return n
}

func render(fset *token.FileSet, f *ast.File) ([]byte, error) {
	var buf bytes.Buffer
	if err := format.Node(&buf, fset, f); err != nil {
		return nil, err
	}
	return buf.Bytes(), nil
}
