// Command samplerun runs the functions of internal/sample free-running and, when built through the
// instrumenter's overlay, under the scheduler; it prints the set of results of each.
package main

import (
	"fmt"
	"os"
	"sort"
	"strings"

	"verif.local/gosched/internal/sample"
	"verif.local/gosched/vs"
)

func main() {
	fns := []struct {
		name string
		f    func() string
	}{{"GoForms", sample.GoForms}, {"SelectForms", sample.SelectForms}, {"RangeForms", sample.RangeForms}, {"SyncTime", sample.SyncTime}}
	bad := false
	for _, fn := range fns {
		free := fn.f()
		outcomes := map[string]bool{}
		fac := func() vs.Exec {
			var res string
			return vs.Exec{Body: func() { res = fn.f() }, Check: func(r *vs.Result) (string, []string) {
				outcomes[r.Status.String()+" "+res] = true
				return res, nil
			}}
		}
		st := vs.Explore(fac, vs.Options{Prune: true, MaxViolations: 1 << 30, Samples: -1, MaxSteps: 5000})
		var keys []string
		for k := range outcomes {
			keys = append(keys, k)
		}
		sort.Strings(keys)
		fmt.Printf("%s: free-running %q\n  controlled: %d executions, %d states, outcomes:\n    %s\n", fn.name, free, st.Executions, st.States, strings.Join(keys, "\n    "))
		if len(st.Errors) > 0 || len(st.Violations) > 0 {
			fmt.Println("  ERRORS:", st.Errors, st.Violations)
			bad = true
		}
		if !outcomes["done "+free] {
			fmt.Println("  MISMATCH: the free-running result is not among the controlled outcomes")
			bad = true
		}
		if st.Executions < 2 && fn.name != "SyncTime" {
			fmt.Println("  SUSPICIOUS: a single execution - is the package instrumented?")
			bad = true
		}
	}
	if bad {
		os.Exit(1)
	}
}
