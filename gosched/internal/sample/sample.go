// Package sample exercises every construct of the rewrite table; cmd/instrument/selftest.sh
// instruments it, runs it under the scheduler and free-running, and compares the outcome sets.
package sample

import (
	"context"
	"fmt"
	"sort"
	"sync"
	"time"
)

type named chan int

type iface interface{ M() int }
type impl struct{ v int }

func (i *impl) M() int { return i.v }

func worker(id int, out chan<- string, vals ...int) {
	s := 0
	for _, v := range vals {
		s += v
	}
	out <- fmt.Sprintf("w%d=%d", id, s)
}

type box struct{ out chan string }

func (b *box) emit(s string, err error) { b.out <- fmt.Sprint(s, err) }

// GoForms: go with arguments (constants, nil, variadic), method values, literals with parameters.
func GoForms() string {
	out := make(chan string, 8)
	b := &box{out: out}
	x := 1
	go worker(x, out, 1, 2, 3)
	x = 100 // must not be seen by the goroutine above
	xs := []int{4, 5}
	go worker(2, out, xs...)
	go b.emit("m", nil)
	go func(k int, e error) { out <- fmt.Sprint("lit", k, e) }(x+1, nil)
	go func() { out <- "plain" }()
	var got []string
	for i := 0; i < 5; i++ {
		got = append(got, <-out)
	}
	sort.Strings(got)
	return fmt.Sprint(got)
}

// SelectForms: default, send case, nil channel, labels, break, recv-ok, assignment forms.
func SelectForms() string {
	var nilch chan int
	data := make(named, 1)
	done := make(chan struct{})
	res := make(chan iface, 1)
	var log []string
	go func() {
		data <- 7
		res <- &impl{v: 9} // concrete value into a channel of interface type
		close(done)
	}()
	var v int
	var ok bool
	n := 0
loop:
	for {
		select {
		case <-nilch:
			log = append(log, "nil!")
		case v, ok = <-data:
			log = append(log, fmt.Sprint("data", v, ok))
			data = nil
		case r := <-res:
			log = append(log, fmt.Sprint("res", r.M()))
			res = nil
		case _, open := <-done:
			if !open {
				break loop
			}
		}
		n++
		if n > 10 {
			break
		}
	}
	sel := "none"
	select {
	case nilch <- 1:
		sel = "sent-to-nil!"
	default:
		sel = "default"
	}
	buffered := make(chan int, 1)
	select {
	case buffered <- len(log):
		sel += fmt.Sprint(" sent len=", len(buffered), " cap=", cap(buffered))
	default:
		sel += " full!"
	}
	sort.Strings(log)
	return fmt.Sprint(log, sel)
}

// RangeForms: range over channel (define, assign, no variable, labelled continue), range over maps.
func RangeForms() string {
	ch := make(chan int)
	go func() {
		for i := 1; i <= 4; i++ {
			ch <- i
		}
		close(ch)
	}()
	sum := 0
outer:
	for v := range ch {
		if v == 2 {
			continue outer
		}
		sum += v
	}
	ch2 := make(chan int, 3)
	ch2 <- 1
	ch2 <- 2
	close(ch2)
	cnt := 0
	for range ch2 {
		cnt++
	}
	m := map[string]int{"a": 1, "b": 2, "c": 3}
	order := ""
	tot := 0
	for k, v := range m {
		order += k
		tot += v
		if k == "a" {
			delete(m, "b") // may or may not have been visited already
		}
	}
	keys := 0
	for range m {
		keys++
	}
	var k2 string
	for k2 = range m {
	}
	_ = k2
	return fmt.Sprint(sum, cnt, len(order) >= 2, tot >= 4, keys)
}

// SyncTime: mutex, wait group, once, timers, context cancellation (foreign channel).
func SyncTime() string {
	var mu sync.Mutex
	var wg sync.WaitGroup
	var once sync.Once
	n, inits := 0, 0
	for i := 0; i < 3; i++ {
		wg.Add(1)
		go func() {
			defer wg.Done()
			once.Do(func() { inits++ })
			mu.Lock()
			n++
			mu.Unlock()
		}()
	}
	wg.Wait()
	ctx, cancel := context.WithCancel(context.Background())
	stopped := make(chan string, 1)
	go func() {
		t := time.NewTimer(time.Hour)
		defer t.Stop()
		select {
		case <-ctx.Done():
			stopped <- "cancelled"
		case <-t.C:
			stopped <- "timeout"
		}
	}()
	cancel()
	how := <-stopped
	start := time.Now()
	<-time.After(3 * time.Millisecond)
	time.Sleep(time.Millisecond)
	el := time.Since(start) >= 4*time.Millisecond
	return fmt.Sprint(n, inits, how == "cancelled" || how == "timeout", el)
}
