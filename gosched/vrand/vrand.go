// Package vrand replaces math/rand in instrumented files: every draw returns the smallest value
// (jitter is irrelevant once timer firing order is explored by the scheduler).
package vrand

func Int63n(n int64) int64 {
	if n <= 0 {
		panic("invalid argument to Int63n")
	}
	return 0
}
func Int31n(n int32) int32 {
	if n <= 0 {
		panic("invalid argument to Int31n")
	}
	return 0
}
func Intn(n int) int {
	if n <= 0 {
		panic("invalid argument to Intn")
	}
	return 0
}
func Int63() int64     { return 0 }
func Int31() int32     { return 0 }
func Int() int         { return 0 }
func Uint32() uint32   { return 0 }
func Uint64() uint64   { return 0 }
func Float64() float64 { return 0 }
func Float32() float32 { return 0 }
func Seed(int64)       {}
func Perm(n int) []int {
	p := make([]int, n)
	for i := range p {
		p[i] = i
	}
	return p
}
func Shuffle(n int, swap func(i, j int)) {}
