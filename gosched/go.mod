module verif.local/gosched

go 1.21
